
type __ = Obj.t
let __ = let rec f _ = Obj.repr f in Obj.repr f

(** val xorb : bool -> bool -> bool **)

let xorb b1 b2 =
  if b1 then if b2 then false else true else b2

(** val negb : bool -> bool **)

let negb = function
| true -> false
| false -> true

type nat =
| O
| S of nat

type ('a, 'b) sum =
| Inl of 'a
| Inr of 'b

(** val fst : ('a1 * 'a2) -> 'a1 **)

let fst = function
| (x, _) -> x

(** val snd : ('a1 * 'a2) -> 'a2 **)

let snd = function
| (_, y) -> y

(** val length : 'a1 list -> nat **)

let rec length = function
| [] -> O
| _ :: l' -> S (length l')

(** val app : 'a1 list -> 'a1 list -> 'a1 list **)

let rec app l m =
  match l with
  | [] -> m
  | a :: l1 -> a :: (app l1 m)

type comparison =
| Eq
| Lt
| Gt

(** val compOpp : comparison -> comparison **)

let compOpp = function
| Eq -> Eq
| Lt -> Gt
| Gt -> Lt

type compareSpecT =
| CompEqT
| CompLtT
| CompGtT

(** val compareSpec2Type : comparison -> compareSpecT **)

let compareSpec2Type = function
| Eq -> CompEqT
| Lt -> CompLtT
| Gt -> CompGtT

type 'a compSpecT = compareSpecT

(** val compSpec2Type : 'a1 -> 'a1 -> comparison -> 'a1 compSpecT **)

let compSpec2Type _ _ =
  compareSpec2Type

type 'a sig0 = 'a
  (* singleton inductive, whose constructor was exist *)



type uint =
| Nil
| D0 of uint
| D1 of uint
| D2 of uint
| D3 of uint
| D4 of uint
| D5 of uint
| D6 of uint
| D7 of uint
| D8 of uint
| D9 of uint

type signed_int =
| Pos of uint
| Neg of uint

(** val nzhead : uint -> uint **)

let rec nzhead d = match d with
| D0 d0 -> nzhead d0
| _ -> d

(** val unorm : uint -> uint **)

let unorm d =
  match nzhead d with
  | Nil -> D0 Nil
  | x -> x

(** val norm : signed_int -> signed_int **)

let norm = function
| Pos d0 -> Pos (unorm d0)
| Neg d0 -> (match nzhead d0 with
             | Nil -> Pos (D0 Nil)
             | x -> Neg x)

(** val revapp : uint -> uint -> uint **)

let rec revapp d d' =
  match d with
  | Nil -> d'
  | D0 d0 -> revapp d0 (D0 d')
  | D1 d0 -> revapp d0 (D1 d')
  | D2 d0 -> revapp d0 (D2 d')
  | D3 d0 -> revapp d0 (D3 d')
  | D4 d0 -> revapp d0 (D4 d')
  | D5 d0 -> revapp d0 (D5 d')
  | D6 d0 -> revapp d0 (D6 d')
  | D7 d0 -> revapp d0 (D7 d')
  | D8 d0 -> revapp d0 (D8 d')
  | D9 d0 -> revapp d0 (D9 d')

(** val rev : uint -> uint **)

let rev d =
  revapp d Nil

module Little =
 struct
  (** val succ : uint -> uint **)

  let rec succ = function
  | Nil -> D1 Nil
  | D0 d0 -> D1 d0
  | D1 d0 -> D2 d0
  | D2 d0 -> D3 d0
  | D3 d0 -> D4 d0
  | D4 d0 -> D5 d0
  | D5 d0 -> D6 d0
  | D6 d0 -> D7 d0
  | D7 d0 -> D8 d0
  | D8 d0 -> D9 d0
  | D9 d0 -> D0 (succ d0)
 end

type uint0 =
| Nil0
| D10 of uint0
| D11 of uint0
| D12 of uint0
| D13 of uint0
| D14 of uint0
| D15 of uint0
| D16 of uint0
| D17 of uint0
| D18 of uint0
| D19 of uint0
| Da of uint0
| Db of uint0
| Dc of uint0
| Dd of uint0
| De of uint0
| Df of uint0

type signed_int0 =
| Pos0 of uint0
| Neg0 of uint0

(** val nzhead0 : uint0 -> uint0 **)

let rec nzhead0 d = match d with
| D10 d0 -> nzhead0 d0
| _ -> d

(** val unorm0 : uint0 -> uint0 **)

let unorm0 d =
  match nzhead0 d with
  | Nil0 -> D10 Nil0
  | x -> x

(** val norm0 : signed_int0 -> signed_int0 **)

let norm0 = function
| Pos0 d0 -> Pos0 (unorm0 d0)
| Neg0 d0 -> (match nzhead0 d0 with
              | Nil0 -> Pos0 (D10 Nil0)
              | x -> Neg0 x)

(** val revapp0 : uint0 -> uint0 -> uint0 **)

let rec revapp0 d d' =
  match d with
  | Nil0 -> d'
  | D10 d0 -> revapp0 d0 (D10 d')
  | D11 d0 -> revapp0 d0 (D11 d')
  | D12 d0 -> revapp0 d0 (D12 d')
  | D13 d0 -> revapp0 d0 (D13 d')
  | D14 d0 -> revapp0 d0 (D14 d')
  | D15 d0 -> revapp0 d0 (D15 d')
  | D16 d0 -> revapp0 d0 (D16 d')
  | D17 d0 -> revapp0 d0 (D17 d')
  | D18 d0 -> revapp0 d0 (D18 d')
  | D19 d0 -> revapp0 d0 (D19 d')
  | Da d0 -> revapp0 d0 (Da d')
  | Db d0 -> revapp0 d0 (Db d')
  | Dc d0 -> revapp0 d0 (Dc d')
  | Dd d0 -> revapp0 d0 (Dd d')
  | De d0 -> revapp0 d0 (De d')
  | Df d0 -> revapp0 d0 (Df d')

(** val rev0 : uint0 -> uint0 **)

let rev0 d =
  revapp0 d Nil0

module Coq_Little =
 struct
  (** val succ : uint0 -> uint0 **)

  let rec succ = function
  | Nil0 -> D11 Nil0
  | D10 d0 -> D11 d0
  | D11 d0 -> D12 d0
  | D12 d0 -> D13 d0
  | D13 d0 -> D14 d0
  | D14 d0 -> D15 d0
  | D15 d0 -> D16 d0
  | D16 d0 -> D17 d0
  | D17 d0 -> D18 d0
  | D18 d0 -> D19 d0
  | D19 d0 -> Da d0
  | Da d0 -> Db d0
  | Db d0 -> Dc d0
  | Dc d0 -> Dd d0
  | Dd d0 -> De d0
  | De d0 -> Df d0
  | Df d0 -> D10 (succ d0)
 end

type uint1 =
| UIntDecimal of uint
| UIntHexadecimal of uint0

type signed_int1 =
| IntDecimal of signed_int
| IntHexadecimal of signed_int0

module Coq__1 = struct
 (** val add : nat -> nat -> nat **)
 let rec add n0 m =
   match n0 with
   | O -> m
   | S p -> S (add p m)
end
include Coq__1

(** val sub : nat -> nat -> nat **)

let rec sub n0 m =
  match n0 with
  | O -> n0
  | S k -> (match m with
            | O -> n0
            | S l -> sub k l)

type positive =
| XI of positive
| XO of positive
| XH

type n =
| N0
| Npos of positive

type z =
| Z0
| Zpos of positive
| Zneg of positive

type reflect =
| ReflectT
| ReflectF

(** val iff_reflect : bool -> reflect **)

let iff_reflect = function
| true -> ReflectT
| false -> ReflectF

module Nat =
 struct
  type t = nat

  (** val zero : nat **)

  let zero =
    O

  (** val one : nat **)

  let one =
    S O

  (** val two : nat **)

  let two =
    S (S O)

  (** val succ : nat -> nat **)

  let succ x =
    S x

  (** val pred : nat -> nat **)

  let pred n0 = match n0 with
  | O -> n0
  | S u -> u

  (** val add : nat -> nat -> nat **)

  let rec add n0 m =
    match n0 with
    | O -> m
    | S p -> S (add p m)

  (** val double : nat -> nat **)

  let double n0 =
    add n0 n0

  (** val mul : nat -> nat -> nat **)

  let rec mul n0 m =
    match n0 with
    | O -> O
    | S p -> add m (mul p m)

  (** val sub : nat -> nat -> nat **)

  let rec sub n0 m =
    match n0 with
    | O -> n0
    | S k -> (match m with
              | O -> n0
              | S l -> sub k l)

  (** val eqb : nat -> nat -> bool **)

  let rec eqb n0 m =
    match n0 with
    | O -> (match m with
            | O -> true
            | S _ -> false)
    | S n' -> (match m with
               | O -> false
               | S m' -> eqb n' m')

  (** val leb : nat -> nat -> bool **)

  let rec leb n0 m =
    match n0 with
    | O -> true
    | S n' -> (match m with
               | O -> false
               | S m' -> leb n' m')

  (** val ltb : nat -> nat -> bool **)

  let ltb n0 m =
    leb (S n0) m

  (** val compare : nat -> nat -> comparison **)

  let rec compare n0 m =
    match n0 with
    | O -> (match m with
            | O -> Eq
            | S _ -> Lt)
    | S n' -> (match m with
               | O -> Gt
               | S m' -> compare n' m')

  (** val max : nat -> nat -> nat **)

  let rec max n0 m =
    match n0 with
    | O -> m
    | S n' -> (match m with
               | O -> n0
               | S m' -> S (max n' m'))

  (** val min : nat -> nat -> nat **)

  let rec min n0 m =
    match n0 with
    | O -> O
    | S n' -> (match m with
               | O -> O
               | S m' -> S (min n' m'))

  (** val even : nat -> bool **)

  let rec even = function
  | O -> true
  | S n1 -> (match n1 with
             | O -> false
             | S n' -> even n')

  (** val odd : nat -> bool **)

  let odd n0 =
    negb (even n0)

  (** val pow : nat -> nat -> nat **)

  let rec pow n0 = function
  | O -> S O
  | S m0 -> mul n0 (pow n0 m0)

  (** val tail_add : nat -> nat -> nat **)

  let rec tail_add n0 m =
    match n0 with
    | O -> m
    | S n1 -> tail_add n1 (S m)

  (** val tail_addmul : nat -> nat -> nat -> nat **)

  let rec tail_addmul r n0 m =
    match n0 with
    | O -> r
    | S n1 -> tail_addmul (tail_add m r) n1 m

  (** val tail_mul : nat -> nat -> nat **)

  let tail_mul n0 m =
    tail_addmul O n0 m

  (** val of_uint_acc : uint -> nat -> nat **)

  let rec of_uint_acc d acc =
    match d with
    | Nil -> acc
    | D0 d0 ->
      of_uint_acc d0 (tail_mul (S (S (S (S (S (S (S (S (S (S O)))))))))) acc)
    | D1 d0 ->
      of_uint_acc d0 (S
        (tail_mul (S (S (S (S (S (S (S (S (S (S O)))))))))) acc))
    | D2 d0 ->
      of_uint_acc d0 (S (S
        (tail_mul (S (S (S (S (S (S (S (S (S (S O)))))))))) acc)))
    | D3 d0 ->
      of_uint_acc d0 (S (S (S
        (tail_mul (S (S (S (S (S (S (S (S (S (S O)))))))))) acc))))
    | D4 d0 ->
      of_uint_acc d0 (S (S (S (S
        (tail_mul (S (S (S (S (S (S (S (S (S (S O)))))))))) acc)))))
    | D5 d0 ->
      of_uint_acc d0 (S (S (S (S (S
        (tail_mul (S (S (S (S (S (S (S (S (S (S O)))))))))) acc))))))
    | D6 d0 ->
      of_uint_acc d0 (S (S (S (S (S (S
        (tail_mul (S (S (S (S (S (S (S (S (S (S O)))))))))) acc)))))))
    | D7 d0 ->
      of_uint_acc d0 (S (S (S (S (S (S (S
        (tail_mul (S (S (S (S (S (S (S (S (S (S O)))))))))) acc))))))))
    | D8 d0 ->
      of_uint_acc d0 (S (S (S (S (S (S (S (S
        (tail_mul (S (S (S (S (S (S (S (S (S (S O)))))))))) acc)))))))))
    | D9 d0 ->
      of_uint_acc d0 (S (S (S (S (S (S (S (S (S
        (tail_mul (S (S (S (S (S (S (S (S (S (S O)))))))))) acc))))))))))

  (** val of_uint : uint -> nat **)

  let of_uint d =
    of_uint_acc d O

  (** val of_hex_uint_acc : uint0 -> nat -> nat **)

  let rec of_hex_uint_acc d acc =
    match d with
    | Nil0 -> acc
    | D10 d0 ->
      of_hex_uint_acc d0
        (tail_mul (S (S (S (S (S (S (S (S (S (S (S (S (S (S (S (S
          O)))))))))))))))) acc)
    | D11 d0 ->
      of_hex_uint_acc d0 (S
        (tail_mul (S (S (S (S (S (S (S (S (S (S (S (S (S (S (S (S
          O)))))))))))))))) acc))
    | D12 d0 ->
      of_hex_uint_acc d0 (S (S
        (tail_mul (S (S (S (S (S (S (S (S (S (S (S (S (S (S (S (S
          O)))))))))))))))) acc)))
    | D13 d0 ->
      of_hex_uint_acc d0 (S (S (S
        (tail_mul (S (S (S (S (S (S (S (S (S (S (S (S (S (S (S (S
          O)))))))))))))))) acc))))
    | D14 d0 ->
      of_hex_uint_acc d0 (S (S (S (S
        (tail_mul (S (S (S (S (S (S (S (S (S (S (S (S (S (S (S (S
          O)))))))))))))))) acc)))))
    | D15 d0 ->
      of_hex_uint_acc d0 (S (S (S (S (S
        (tail_mul (S (S (S (S (S (S (S (S (S (S (S (S (S (S (S (S
          O)))))))))))))))) acc))))))
    | D16 d0 ->
      of_hex_uint_acc d0 (S (S (S (S (S (S
        (tail_mul (S (S (S (S (S (S (S (S (S (S (S (S (S (S (S (S
          O)))))))))))))))) acc)))))))
    | D17 d0 ->
      of_hex_uint_acc d0 (S (S (S (S (S (S (S
        (tail_mul (S (S (S (S (S (S (S (S (S (S (S (S (S (S (S (S
          O)))))))))))))))) acc))))))))
    | D18 d0 ->
      of_hex_uint_acc d0 (S (S (S (S (S (S (S (S
        (tail_mul (S (S (S (S (S (S (S (S (S (S (S (S (S (S (S (S
          O)))))))))))))))) acc)))))))))
    | D19 d0 ->
      of_hex_uint_acc d0 (S (S (S (S (S (S (S (S (S
        (tail_mul (S (S (S (S (S (S (S (S (S (S (S (S (S (S (S (S
          O)))))))))))))))) acc))))))))))
    | Da d0 ->
      of_hex_uint_acc d0 (S (S (S (S (S (S (S (S (S (S
        (tail_mul (S (S (S (S (S (S (S (S (S (S (S (S (S (S (S (S
          O)))))))))))))))) acc)))))))))))
    | Db d0 ->
      of_hex_uint_acc d0 (S (S (S (S (S (S (S (S (S (S (S
        (tail_mul (S (S (S (S (S (S (S (S (S (S (S (S (S (S (S (S
          O)))))))))))))))) acc))))))))))))
    | Dc d0 ->
      of_hex_uint_acc d0 (S (S (S (S (S (S (S (S (S (S (S (S
        (tail_mul (S (S (S (S (S (S (S (S (S (S (S (S (S (S (S (S
          O)))))))))))))))) acc)))))))))))))
    | Dd d0 ->
      of_hex_uint_acc d0 (S (S (S (S (S (S (S (S (S (S (S (S (S
        (tail_mul (S (S (S (S (S (S (S (S (S (S (S (S (S (S (S (S
          O)))))))))))))))) acc))))))))))))))
    | De d0 ->
      of_hex_uint_acc d0 (S (S (S (S (S (S (S (S (S (S (S (S (S (S
        (tail_mul (S (S (S (S (S (S (S (S (S (S (S (S (S (S (S (S
          O)))))))))))))))) acc)))))))))))))))
    | Df d0 ->
      of_hex_uint_acc d0 (S (S (S (S (S (S (S (S (S (S (S (S (S (S (S
        (tail_mul (S (S (S (S (S (S (S (S (S (S (S (S (S (S (S (S
          O)))))))))))))))) acc))))))))))))))))

  (** val of_hex_uint : uint0 -> nat **)

  let of_hex_uint d =
    of_hex_uint_acc d O

  (** val of_num_uint : uint1 -> nat **)

  let of_num_uint = function
  | UIntDecimal d0 -> of_uint d0
  | UIntHexadecimal d0 -> of_hex_uint d0

  (** val to_little_uint : nat -> uint -> uint **)

  let rec to_little_uint n0 acc =
    match n0 with
    | O -> acc
    | S n1 -> to_little_uint n1 (Little.succ acc)

  (** val to_uint : nat -> uint **)

  let to_uint n0 =
    rev (to_little_uint n0 (D0 Nil))

  (** val to_little_hex_uint : nat -> uint0 -> uint0 **)

  let rec to_little_hex_uint n0 acc =
    match n0 with
    | O -> acc
    | S n1 -> to_little_hex_uint n1 (Coq_Little.succ acc)

  (** val to_hex_uint : nat -> uint0 **)

  let to_hex_uint n0 =
    rev0 (to_little_hex_uint n0 (D10 Nil0))

  (** val to_num_uint : nat -> uint1 **)

  let to_num_uint n0 =
    UIntDecimal (to_uint n0)

  (** val to_num_hex_uint : nat -> uint1 **)

  let to_num_hex_uint n0 =
    UIntHexadecimal (to_hex_uint n0)

  (** val of_int : signed_int -> nat option **)

  let of_int d =
    match norm d with
    | Pos u -> Some (of_uint u)
    | Neg _ -> None

  (** val of_hex_int : signed_int0 -> nat option **)

  let of_hex_int d =
    match norm0 d with
    | Pos0 u -> Some (of_hex_uint u)
    | Neg0 _ -> None

  (** val of_num_int : signed_int1 -> nat option **)

  let of_num_int = function
  | IntDecimal d0 -> of_int d0
  | IntHexadecimal d0 -> of_hex_int d0

  (** val to_int : nat -> signed_int **)

  let to_int n0 =
    Pos (to_uint n0)

  (** val to_hex_int : nat -> signed_int0 **)

  let to_hex_int n0 =
    Pos0 (to_hex_uint n0)

  (** val to_num_int : nat -> signed_int1 **)

  let to_num_int n0 =
    IntDecimal (to_int n0)

  (** val divmod : nat -> nat -> nat -> nat -> nat * nat **)

  let rec divmod x y q u =
    match x with
    | O -> (q, u)
    | S x' ->
      (match u with
       | O -> divmod x' y (S q) y
       | S u' -> divmod x' y q u')

  (** val div : nat -> nat -> nat **)

  let div x y = match y with
  | O -> y
  | S y' -> fst (divmod x y' O y')

  (** val modulo : nat -> nat -> nat **)

  let modulo x = function
  | O -> x
  | S y' -> sub y' (snd (divmod x y' O y'))

  (** val gcd : nat -> nat -> nat **)

  let rec gcd a b =
    match a with
    | O -> b
    | S a' -> gcd (modulo b (S a')) (S a')

  (** val square : nat -> nat **)

  let square n0 =
    mul n0 n0

  (** val sqrt_iter : nat -> nat -> nat -> nat -> nat **)

  let rec sqrt_iter k p q r =
    match k with
    | O -> p
    | S k' ->
      (match r with
       | O -> sqrt_iter k' (S p) (S (S q)) (S (S q))
       | S r' -> sqrt_iter k' p q r')

  (** val sqrt : nat -> nat **)

  let sqrt n0 =
    sqrt_iter n0 O O O

  (** val log2_iter : nat -> nat -> nat -> nat -> nat **)

  let rec log2_iter k p q r =
    match k with
    | O -> p
    | S k' ->
      (match r with
       | O -> log2_iter k' (S p) (S q) q
       | S r' -> log2_iter k' p (S q) r')

  (** val log2 : nat -> nat **)

  let log2 n0 =
    log2_iter (pred n0) O (S O) O

  (** val iter : nat -> ('a1 -> 'a1) -> 'a1 -> 'a1 **)

  let rec iter n0 f x =
    match n0 with
    | O -> x
    | S n1 -> f (iter n1 f x)

  (** val div2 : nat -> nat **)

  let rec div2 = function
  | O -> O
  | S n1 -> (match n1 with
             | O -> O
             | S n' -> S (div2 n'))

  (** val testbit : nat -> nat -> bool **)

  let rec testbit a = function
  | O -> odd a
  | S n1 -> testbit (div2 a) n1

  (** val shiftl : nat -> nat -> nat **)

  let rec shiftl a = function
  | O -> a
  | S n1 -> double (shiftl a n1)

  (** val shiftr : nat -> nat -> nat **)

  let rec shiftr a = function
  | O -> a
  | S n1 -> div2 (shiftr a n1)

  (** val bitwise : (bool -> bool -> bool) -> nat -> nat -> nat -> nat **)

  let rec bitwise op n0 a b =
    match n0 with
    | O -> O
    | S n' ->
      add (if op (odd a) (odd b) then S O else O)
        (mul (S (S O)) (bitwise op n' (div2 a) (div2 b)))

  (** val coq_land : nat -> nat -> nat **)

  let coq_land a b =
    bitwise (&&) a a b

  (** val coq_lor : nat -> nat -> nat **)

  let coq_lor a b =
    bitwise (||) (max a b) a b

  (** val ldiff : nat -> nat -> nat **)

  let ldiff a b =
    bitwise (fun b0 b' -> (&&) b0 (negb b')) a a b

  (** val coq_lxor : nat -> nat -> nat **)

  let coq_lxor a b =
    bitwise xorb (max a b) a b

  (** val recursion : 'a1 -> (nat -> 'a1 -> 'a1) -> nat -> 'a1 **)

  let rec recursion x f0 = function
  | O -> x
  | S n1 -> f0 n1 (recursion x f0 n1)

  (** val eq_dec : nat -> nat -> bool **)

  let rec eq_dec n0 m =
    match n0 with
    | O -> (match m with
            | O -> true
            | S _ -> false)
    | S n1 -> (match m with
               | O -> false
               | S n2 -> eq_dec n1 n2)

  (** val leb_spec0 : nat -> nat -> reflect **)

  let leb_spec0 x y =
    iff_reflect (leb x y)

  (** val ltb_spec0 : nat -> nat -> reflect **)

  let ltb_spec0 x y =
    iff_reflect (ltb x y)

  module Private_OrderTac =
   struct
    module IsTotal =
     struct
     end

    module Tac =
     struct
     end
   end

  module Private_Tac =
   struct
   end

  module Private_Dec =
   struct
    (** val max_case_strong :
        nat -> nat -> (nat -> nat -> __ -> 'a1 -> 'a1) -> (__ -> 'a1) -> (__
        -> 'a1) -> 'a1 **)

    let max_case_strong n0 m compat hl hr =
      let c = compSpec2Type n0 m (compare n0 m) in
      (match c with
       | CompGtT -> compat n0 (max n0 m) __ (hl __)
       | _ -> compat m (max n0 m) __ (hr __))

    (** val max_case :
        nat -> nat -> (nat -> nat -> __ -> 'a1 -> 'a1) -> 'a1 -> 'a1 -> 'a1 **)

    let max_case n0 m x x0 x1 =
      max_case_strong n0 m x (fun _ -> x0) (fun _ -> x1)

    (** val max_dec : nat -> nat -> bool **)

    let max_dec n0 m =
      max_case n0 m (fun _ _ _ h0 -> h0) true false

    (** val min_case_strong :
        nat -> nat -> (nat -> nat -> __ -> 'a1 -> 'a1) -> (__ -> 'a1) -> (__
        -> 'a1) -> 'a1 **)

    let min_case_strong n0 m compat hl hr =
      let c = compSpec2Type n0 m (compare n0 m) in
      (match c with
       | CompGtT -> compat m (min n0 m) __ (hr __)
       | _ -> compat n0 (min n0 m) __ (hl __))

    (** val min_case :
        nat -> nat -> (nat -> nat -> __ -> 'a1 -> 'a1) -> 'a1 -> 'a1 -> 'a1 **)

    let min_case n0 m x x0 x1 =
      min_case_strong n0 m x (fun _ -> x0) (fun _ -> x1)

    (** val min_dec : nat -> nat -> bool **)

    let min_dec n0 m =
      min_case n0 m (fun _ _ _ h0 -> h0) true false
   end

  (** val max_case_strong :
      nat -> nat -> (__ -> 'a1) -> (__ -> 'a1) -> 'a1 **)

  let max_case_strong n0 m x x0 =
    Private_Dec.max_case_strong n0 m (fun _ _ _ x1 -> x1) x x0

  (** val max_case : nat -> nat -> 'a1 -> 'a1 -> 'a1 **)

  let max_case n0 m x x0 =
    max_case_strong n0 m (fun _ -> x) (fun _ -> x0)

  (** val max_dec : nat -> nat -> bool **)

  let max_dec =
    Private_Dec.max_dec

  (** val min_case_strong :
      nat -> nat -> (__ -> 'a1) -> (__ -> 'a1) -> 'a1 **)

  let min_case_strong n0 m x x0 =
    Private_Dec.min_case_strong n0 m (fun _ _ _ x1 -> x1) x x0

  (** val min_case : nat -> nat -> 'a1 -> 'a1 -> 'a1 **)

  let min_case n0 m x x0 =
    min_case_strong n0 m (fun _ -> x) (fun _ -> x0)

  (** val min_dec : nat -> nat -> bool **)

  let min_dec =
    Private_Dec.min_dec

  module Private_Parity =
   struct
   end

  module Private_NZPow =
   struct
   end

  module Private_NZSqrt =
   struct
   end

  (** val sqrt_up : nat -> nat **)

  let sqrt_up a =
    match compare O a with
    | Lt -> S (sqrt (pred a))
    | _ -> O

  (** val log2_up : nat -> nat **)

  let log2_up a =
    match compare (S O) a with
    | Lt -> S (log2 (pred a))
    | _ -> O

  module Private_NZDiv =
   struct
   end

  (** val lcm : nat -> nat -> nat **)

  let lcm a b =
    mul a (div b (gcd a b))

  (** val eqb_spec : nat -> nat -> reflect **)

  let eqb_spec x y =
    iff_reflect (eqb x y)

  (** val b2n : bool -> nat **)

  let b2n = function
  | true -> S O
  | false -> O

  (** val setbit : nat -> nat -> nat **)

  let setbit a n0 =
    coq_lor a (shiftl (S O) n0)

  (** val clearbit : nat -> nat -> nat **)

  let clearbit a n0 =
    ldiff a (shiftl (S O) n0)

  (** val ones : nat -> nat **)

  let ones n0 =
    pred (shiftl (S O) n0)

  (** val lnot : nat -> nat -> nat **)

  let lnot a n0 =
    coq_lxor a (ones n0)

  (** val coq_Even_Odd_dec : nat -> bool **)

  let rec coq_Even_Odd_dec = function
  | O -> true
  | S n1 -> if coq_Even_Odd_dec n1 then false else true

  type coq_EvenT = nat

  type coq_OddT = nat

  (** val coq_EvenT_0 : coq_EvenT **)

  let coq_EvenT_0 =
    O

  (** val coq_EvenT_2 : nat -> coq_EvenT -> coq_EvenT **)

  let coq_EvenT_2 _ h0 =
    S h0

  (** val coq_OddT_1 : coq_OddT **)

  let coq_OddT_1 =
    O

  (** val coq_OddT_2 : nat -> coq_OddT -> coq_OddT **)

  let coq_OddT_2 _ h0 =
    S h0

  (** val coq_EvenT_S_OddT : nat -> coq_EvenT -> coq_OddT **)

  let coq_EvenT_S_OddT _ = function
  | O -> assert false (* absurd case *)
  | S n0 -> n0

  (** val coq_OddT_S_EvenT : nat -> coq_OddT -> coq_EvenT **)

  let coq_OddT_S_EvenT _ h =
    h

  (** val even_EvenT : nat -> coq_EvenT **)

  let rec even_EvenT = function
  | O -> coq_EvenT_0
  | S n1 ->
    (match n1 with
     | O -> assert false (* absurd case *)
     | S n2 -> let he = even_EvenT n2 in coq_EvenT_2 n2 he)

  (** val odd_OddT : nat -> coq_OddT **)

  let rec odd_OddT = function
  | O -> assert false (* absurd case *)
  | S n1 ->
    (match n1 with
     | O -> coq_OddT_1
     | S n2 -> let he = odd_OddT n2 in coq_OddT_2 n2 he)

  (** val coq_Even_EvenT : nat -> coq_EvenT **)

  let coq_Even_EvenT =
    even_EvenT

  (** val coq_Odd_OddT : nat -> coq_OddT **)

  let coq_Odd_OddT =
    odd_OddT

  (** val coq_EvenT_OddT_dec : nat -> (coq_EvenT, coq_OddT) sum **)

  let coq_EvenT_OddT_dec n0 =
    if even n0 then Inl (even_EvenT n0) else Inr (odd_OddT n0)

  (** val coq_OddT_EvenT_rect :
      (nat -> coq_EvenT -> 'a2 -> 'a1) -> 'a2 -> (nat -> coq_OddT -> 'a1 ->
      'a2) -> nat -> coq_OddT -> 'a1 **)

  let rec coq_OddT_EvenT_rect hQP hQ0 hPQ n0 h =
    match n0 with
    | O -> assert false (* absurd case *)
    | S n1 ->
      (match n1 with
       | O -> hQP O coq_EvenT_0 hQ0
       | S n2 ->
         let hES = coq_OddT_S_EvenT (S n2) h in
         let hO = coq_EvenT_S_OddT n2 hES in
         hQP (S n2) hES (hPQ n2 hO (coq_OddT_EvenT_rect hQP hQ0 hPQ n2 hO)))

  (** val coq_EvenT_OddT_rect :
      (nat -> coq_EvenT -> 'a2 -> 'a1) -> 'a2 -> (nat -> coq_OddT -> 'a1 ->
      'a2) -> nat -> coq_EvenT -> 'a2 **)

  let coq_EvenT_OddT_rect hQP hQ0 hPQ n0 hES =
    match n0 with
    | O -> hQ0
    | S n1 ->
      let hO = coq_EvenT_S_OddT n1 hES in
      hPQ n1 hO (coq_OddT_EvenT_rect hQP hQ0 hPQ n1 hO)
 end

module Pos =
 struct
  type mask =
  | IsNul
  | IsPos of positive
  | IsNeg
 end

module Coq_Pos =
 struct
  (** val succ : positive -> positive **)

  let rec succ = function
  | XI p -> XO (succ p)
  | XO p -> XI p
  | XH -> XO XH

  (** val add : positive -> positive -> positive **)

  let rec add x y =
    match x with
    | XI p ->
      (match y with
       | XI q -> XO (add_carry p q)
       | XO q -> XI (add p q)
       | XH -> XO (succ p))
    | XO p ->
      (match y with
       | XI q -> XI (add p q)
       | XO q -> XO (add p q)
       | XH -> XI p)
    | XH -> (match y with
             | XI q -> XO (succ q)
             | XO q -> XI q
             | XH -> XO XH)

  (** val add_carry : positive -> positive -> positive **)

  and add_carry x y =
    match x with
    | XI p ->
      (match y with
       | XI q -> XI (add_carry p q)
       | XO q -> XO (add_carry p q)
       | XH -> XI (succ p))
    | XO p ->
      (match y with
       | XI q -> XO (add_carry p q)
       | XO q -> XI (add p q)
       | XH -> XO (succ p))
    | XH ->
      (match y with
       | XI q -> XI (succ q)
       | XO q -> XO (succ q)
       | XH -> XI XH)

  (** val pred_double : positive -> positive **)

  let rec pred_double = function
  | XI p -> XI (XO p)
  | XO p -> XI (pred_double p)
  | XH -> XH

  (** val pred_N : positive -> n **)

  let pred_N = function
  | XI p -> Npos (XO p)
  | XO p -> Npos (pred_double p)
  | XH -> N0

  type mask = Pos.mask =
  | IsNul
  | IsPos of positive
  | IsNeg

  (** val succ_double_mask : mask -> mask **)

  let succ_double_mask = function
  | IsNul -> IsPos XH
  | IsPos p -> IsPos (XI p)
  | IsNeg -> IsNeg

  (** val double_mask : mask -> mask **)

  let double_mask = function
  | IsPos p -> IsPos (XO p)
  | x0 -> x0

  (** val double_pred_mask : positive -> mask **)

  let double_pred_mask = function
  | XI p -> IsPos (XO (XO p))
  | XO p -> IsPos (XO (pred_double p))
  | XH -> IsNul

  (** val sub_mask : positive -> positive -> mask **)

  let rec sub_mask x y =
    match x with
    | XI p ->
      (match y with
       | XI q -> double_mask (sub_mask p q)
       | XO q -> succ_double_mask (sub_mask p q)
       | XH -> IsPos (XO p))
    | XO p ->
      (match y with
       | XI q -> succ_double_mask (sub_mask_carry p q)
       | XO q -> double_mask (sub_mask p q)
       | XH -> IsPos (pred_double p))
    | XH -> (match y with
             | XH -> IsNul
             | _ -> IsNeg)

  (** val sub_mask_carry : positive -> positive -> mask **)

  and sub_mask_carry x y =
    match x with
    | XI p ->
      (match y with
       | XI q -> succ_double_mask (sub_mask_carry p q)
       | XO q -> double_mask (sub_mask p q)
       | XH -> IsPos (pred_double p))
    | XO p ->
      (match y with
       | XI q -> double_mask (sub_mask_carry p q)
       | XO q -> succ_double_mask (sub_mask_carry p q)
       | XH -> double_pred_mask p)
    | XH -> IsNeg

  (** val mul : positive -> positive -> positive **)

  let rec mul x y =
    match x with
    | XI p -> add y (XO (mul p y))
    | XO p -> XO (mul p y)
    | XH -> y

  (** val iter : ('a1 -> 'a1) -> 'a1 -> positive -> 'a1 **)

  let rec iter f x = function
  | XI n' -> f (iter f (iter f x n') n')
  | XO n' -> iter f (iter f x n') n'
  | XH -> f x

  (** val pow : positive -> positive -> positive **)

  let pow x =
    iter (mul x) XH

  (** val compare_cont : comparison -> positive -> positive -> comparison **)

  let rec compare_cont r x y =
    match x with
    | XI p ->
      (match y with
       | XI q -> compare_cont r p q
       | XO q -> compare_cont Gt p q
       | XH -> Gt)
    | XO p ->
      (match y with
       | XI q -> compare_cont Lt p q
       | XO q -> compare_cont r p q
       | XH -> Gt)
    | XH -> (match y with
             | XH -> r
             | _ -> Lt)

  (** val compare : positive -> positive -> comparison **)

  let compare =
    compare_cont Eq

  (** val eqb : positive -> positive -> bool **)

  let rec eqb p q =
    match p with
    | XI p0 -> (match q with
                | XI q0 -> eqb p0 q0
                | _ -> false)
    | XO p0 -> (match q with
                | XO q0 -> eqb p0 q0
                | _ -> false)
    | XH -> (match q with
             | XH -> true
             | _ -> false)

  (** val coq_Nsucc_double : n -> n **)

  let coq_Nsucc_double = function
  | N0 -> Npos XH
  | Npos p -> Npos (XI p)

  (** val coq_Ndouble : n -> n **)

  let coq_Ndouble = function
  | N0 -> N0
  | Npos p -> Npos (XO p)

  (** val coq_land : positive -> positive -> n **)

  let rec coq_land p q =
    match p with
    | XI p0 ->
      (match q with
       | XI q0 -> coq_Nsucc_double (coq_land p0 q0)
       | XO q0 -> coq_Ndouble (coq_land p0 q0)
       | XH -> Npos XH)
    | XO p0 ->
      (match q with
       | XI q0 -> coq_Ndouble (coq_land p0 q0)
       | XO q0 -> coq_Ndouble (coq_land p0 q0)
       | XH -> N0)
    | XH -> (match q with
             | XO _ -> N0
             | _ -> Npos XH)

  (** val coq_lxor : positive -> positive -> n **)

  let rec coq_lxor p q =
    match p with
    | XI p0 ->
      (match q with
       | XI q0 -> coq_Ndouble (coq_lxor p0 q0)
       | XO q0 -> coq_Nsucc_double (coq_lxor p0 q0)
       | XH -> Npos (XO p0))
    | XO p0 ->
      (match q with
       | XI q0 -> coq_Nsucc_double (coq_lxor p0 q0)
       | XO q0 -> coq_Ndouble (coq_lxor p0 q0)
       | XH -> Npos (XI p0))
    | XH ->
      (match q with
       | XI q0 -> Npos (XO q0)
       | XO q0 -> Npos (XI q0)
       | XH -> N0)

  (** val shiftl : positive -> n -> positive **)

  let shiftl p = function
  | N0 -> p
  | Npos n1 -> iter (fun x -> XO x) p n1

  (** val testbit : positive -> n -> bool **)

  let rec testbit p n0 =
    match p with
    | XI p0 -> (match n0 with
                | N0 -> true
                | Npos n1 -> testbit p0 (pred_N n1))
    | XO p0 -> (match n0 with
                | N0 -> false
                | Npos n1 -> testbit p0 (pred_N n1))
    | XH -> (match n0 with
             | N0 -> true
             | Npos _ -> false)

  (** val iter_op : ('a1 -> 'a1 -> 'a1) -> positive -> 'a1 -> 'a1 **)

  let rec iter_op op p a =
    match p with
    | XI p0 -> op a (iter_op op p0 (op a a))
    | XO p0 -> iter_op op p0 (op a a)
    | XH -> a

  (** val to_nat : positive -> nat **)

  let to_nat x =
    iter_op Coq__1.add x (S O)

  (** val of_succ_nat : nat -> positive **)

  let rec of_succ_nat = function
  | O -> XH
  | S x -> succ (of_succ_nat x)
 end

module N =
 struct
  (** val succ_double : n -> n **)

  let succ_double = function
  | N0 -> Npos XH
  | Npos p -> Npos (XI p)

  (** val double : n -> n **)

  let double = function
  | N0 -> N0
  | Npos p -> Npos (XO p)

  (** val add : n -> n -> n **)

  let add n0 m =
    match n0 with
    | N0 -> m
    | Npos p -> (match m with
                 | N0 -> n0
                 | Npos q -> Npos (Coq_Pos.add p q))

  (** val sub : n -> n -> n **)

  let sub n0 m =
    match n0 with
    | N0 -> N0
    | Npos n' ->
      (match m with
       | N0 -> n0
       | Npos m' ->
         (match Coq_Pos.sub_mask n' m' with
          | Coq_Pos.IsPos p -> Npos p
          | _ -> N0))

  (** val mul : n -> n -> n **)

  let mul n0 m =
    match n0 with
    | N0 -> N0
    | Npos p -> (match m with
                 | N0 -> N0
                 | Npos q -> Npos (Coq_Pos.mul p q))

  (** val compare : n -> n -> comparison **)

  let compare n0 m =
    match n0 with
    | N0 -> (match m with
             | N0 -> Eq
             | Npos _ -> Lt)
    | Npos n' -> (match m with
                  | N0 -> Gt
                  | Npos m' -> Coq_Pos.compare n' m')

  (** val eqb : n -> n -> bool **)

  let eqb n0 m =
    match n0 with
    | N0 -> (match m with
             | N0 -> true
             | Npos _ -> false)
    | Npos p -> (match m with
                 | N0 -> false
                 | Npos q -> Coq_Pos.eqb p q)

  (** val leb : n -> n -> bool **)

  let leb x y =
    match compare x y with
    | Gt -> false
    | _ -> true

  (** val ltb : n -> n -> bool **)

  let ltb x y =
    match compare x y with
    | Lt -> true
    | _ -> false

  (** val div2 : n -> n **)

  let div2 = function
  | N0 -> N0
  | Npos p0 -> (match p0 with
                | XI p -> Npos p
                | XO p -> Npos p
                | XH -> N0)

  (** val pow : n -> n -> n **)

  let pow n0 = function
  | N0 -> Npos XH
  | Npos p0 -> (match n0 with
                | N0 -> N0
                | Npos q -> Npos (Coq_Pos.pow q p0))

  (** val pos_div_eucl : positive -> n -> n * n **)

  let rec pos_div_eucl a b =
    match a with
    | XI a' ->
      let (q, r) = pos_div_eucl a' b in
      let r' = succ_double r in
      if leb b r' then ((succ_double q), (sub r' b)) else ((double q), r')
    | XO a' ->
      let (q, r) = pos_div_eucl a' b in
      let r' = double r in
      if leb b r' then ((succ_double q), (sub r' b)) else ((double q), r')
    | XH ->
      (match b with
       | N0 -> (N0, (Npos XH))
       | Npos p -> (match p with
                    | XH -> ((Npos XH), N0)
                    | _ -> (N0, (Npos XH))))

  (** val div_eucl : n -> n -> n * n **)

  let div_eucl a b =
    match a with
    | N0 -> (N0, N0)
    | Npos na -> (match b with
                  | N0 -> (N0, a)
                  | Npos _ -> pos_div_eucl na b)

  (** val div : n -> n -> n **)

  let div a b =
    fst (div_eucl a b)

  (** val modulo : n -> n -> n **)

  let modulo a b =
    snd (div_eucl a b)

  (** val coq_land : n -> n -> n **)

  let coq_land n0 m =
    match n0 with
    | N0 -> N0
    | Npos p -> (match m with
                 | N0 -> N0
                 | Npos q -> Coq_Pos.coq_land p q)

  (** val coq_lxor : n -> n -> n **)

  let coq_lxor n0 m =
    match n0 with
    | N0 -> m
    | Npos p -> (match m with
                 | N0 -> n0
                 | Npos q -> Coq_Pos.coq_lxor p q)

  (** val shiftl : n -> n -> n **)

  let shiftl a n0 =
    match a with
    | N0 -> N0
    | Npos a0 -> Npos (Coq_Pos.shiftl a0 n0)

  (** val shiftr : n -> n -> n **)

  let shiftr a = function
  | N0 -> a
  | Npos p -> Coq_Pos.iter div2 a p

  (** val testbit : n -> n -> bool **)

  let testbit a n0 =
    match a with
    | N0 -> false
    | Npos p -> Coq_Pos.testbit p n0

  (** val to_nat : n -> nat **)

  let to_nat = function
  | N0 -> O
  | Npos p -> Coq_Pos.to_nat p

  (** val of_nat : nat -> n **)

  let of_nat = function
  | O -> N0
  | S n' -> Npos (Coq_Pos.of_succ_nat n')
 end

module Z =
 struct
  (** val double : z -> z **)

  let double = function
  | Z0 -> Z0
  | Zpos p -> Zpos (XO p)
  | Zneg p -> Zneg (XO p)

  (** val succ_double : z -> z **)

  let succ_double = function
  | Z0 -> Zpos XH
  | Zpos p -> Zpos (XI p)
  | Zneg p -> Zneg (Coq_Pos.pred_double p)

  (** val pred_double : z -> z **)

  let pred_double = function
  | Z0 -> Zneg XH
  | Zpos p -> Zpos (Coq_Pos.pred_double p)
  | Zneg p -> Zneg (XI p)

  (** val pos_sub : positive -> positive -> z **)

  let rec pos_sub x y =
    match x with
    | XI p ->
      (match y with
       | XI q -> double (pos_sub p q)
       | XO q -> succ_double (pos_sub p q)
       | XH -> Zpos (XO p))
    | XO p ->
      (match y with
       | XI q -> pred_double (pos_sub p q)
       | XO q -> double (pos_sub p q)
       | XH -> Zpos (Coq_Pos.pred_double p))
    | XH ->
      (match y with
       | XI q -> Zneg (XO q)
       | XO q -> Zneg (Coq_Pos.pred_double q)
       | XH -> Z0)

  (** val add : z -> z -> z **)

  let add x y =
    match x with
    | Z0 -> y
    | Zpos x' ->
      (match y with
       | Z0 -> x
       | Zpos y' -> Zpos (Coq_Pos.add x' y')
       | Zneg y' -> pos_sub x' y')
    | Zneg x' ->
      (match y with
       | Z0 -> x
       | Zpos y' -> pos_sub y' x'
       | Zneg y' -> Zneg (Coq_Pos.add x' y'))

  (** val opp : z -> z **)

  let opp = function
  | Z0 -> Z0
  | Zpos x0 -> Zneg x0
  | Zneg x0 -> Zpos x0

  (** val sub : z -> z -> z **)

  let sub m n0 =
    add m (opp n0)

  (** val mul : z -> z -> z **)

  let mul x y =
    match x with
    | Z0 -> Z0
    | Zpos x' ->
      (match y with
       | Z0 -> Z0
       | Zpos y' -> Zpos (Coq_Pos.mul x' y')
       | Zneg y' -> Zneg (Coq_Pos.mul x' y'))
    | Zneg x' ->
      (match y with
       | Z0 -> Z0
       | Zpos y' -> Zneg (Coq_Pos.mul x' y')
       | Zneg y' -> Zpos (Coq_Pos.mul x' y'))

  (** val compare : z -> z -> comparison **)

  let compare x y =
    match x with
    | Z0 -> (match y with
             | Z0 -> Eq
             | Zpos _ -> Lt
             | Zneg _ -> Gt)
    | Zpos x' -> (match y with
                  | Zpos y' -> Coq_Pos.compare x' y'
                  | _ -> Gt)
    | Zneg x' ->
      (match y with
       | Zneg y' -> compOpp (Coq_Pos.compare x' y')
       | _ -> Lt)

  (** val leb : z -> z -> bool **)

  let leb x y =
    match compare x y with
    | Gt -> false
    | _ -> true

  (** val ltb : z -> z -> bool **)

  let ltb x y =
    match compare x y with
    | Lt -> true
    | _ -> false

  (** val to_N : z -> n **)

  let to_N = function
  | Zpos p -> Npos p
  | _ -> N0

  (** val pos_div_eucl : positive -> z -> z * z **)

  let rec pos_div_eucl a b =
    match a with
    | XI a' ->
      let (q, r) = pos_div_eucl a' b in
      let r' = add (mul (Zpos (XO XH)) r) (Zpos XH) in
      if ltb r' b
      then ((mul (Zpos (XO XH)) q), r')
      else ((add (mul (Zpos (XO XH)) q) (Zpos XH)), (sub r' b))
    | XO a' ->
      let (q, r) = pos_div_eucl a' b in
      let r' = mul (Zpos (XO XH)) r in
      if ltb r' b
      then ((mul (Zpos (XO XH)) q), r')
      else ((add (mul (Zpos (XO XH)) q) (Zpos XH)), (sub r' b))
    | XH -> if leb (Zpos (XO XH)) b then (Z0, (Zpos XH)) else ((Zpos XH), Z0)

  (** val div_eucl : z -> z -> z * z **)

  let div_eucl a b =
    match a with
    | Z0 -> (Z0, Z0)
    | Zpos a' ->
      (match b with
       | Z0 -> (Z0, a)
       | Zpos _ -> pos_div_eucl a' b
       | Zneg b' ->
         let (q, r) = pos_div_eucl a' (Zpos b') in
         (match r with
          | Z0 -> ((opp q), Z0)
          | _ -> ((opp (add q (Zpos XH))), (add b r))))
    | Zneg a' ->
      (match b with
       | Z0 -> (Z0, a)
       | Zpos _ ->
         let (q, r) = pos_div_eucl a' b in
         (match r with
          | Z0 -> ((opp q), Z0)
          | _ -> ((opp (add q (Zpos XH))), (sub b r)))
       | Zneg b' -> let (q, r) = pos_div_eucl a' (Zpos b') in (q, (opp r)))

  (** val div : z -> z -> z **)

  let div a b =
    let (q, _) = div_eucl a b in q

  (** val modulo : z -> z -> z **)

  let modulo a b =
    let (_, r) = div_eucl a b in r
 end

(** val nth : nat -> 'a1 list -> 'a1 -> 'a1 **)

let rec nth n0 l default =
  match n0 with
  | O -> (match l with
          | [] -> default
          | x :: _ -> x)
  | S m -> (match l with
            | [] -> default
            | _ :: t0 -> nth m t0 default)

(** val nth_error : 'a1 list -> nat -> 'a1 option **)

let rec nth_error l = function
| O -> (match l with
        | [] -> None
        | x :: _ -> Some x)
| S n1 -> (match l with
           | [] -> None
           | _ :: l0 -> nth_error l0 n1)

(** val rev1 : 'a1 list -> 'a1 list **)

let rec rev1 = function
| [] -> []
| x :: l' -> app (rev1 l') (x :: [])

(** val map : ('a1 -> 'a2) -> 'a1 list -> 'a2 list **)

let rec map f = function
| [] -> []
| a :: t0 -> (f a) :: (map f t0)

(** val flat_map : ('a1 -> 'a2 list) -> 'a1 list -> 'a2 list **)

let rec flat_map f = function
| [] -> []
| x :: t0 -> app (f x) (flat_map f t0)

(** val fold_left : ('a1 -> 'a2 -> 'a1) -> 'a2 list -> 'a1 -> 'a1 **)

let rec fold_left f l a0 =
  match l with
  | [] -> a0
  | b :: t0 -> fold_left f t0 (f a0 b)

(** val existsb : ('a1 -> bool) -> 'a1 list -> bool **)

let rec existsb f = function
| [] -> false
| a :: l0 -> (||) (f a) (existsb f l0)

(** val forallb : ('a1 -> bool) -> 'a1 list -> bool **)

let rec forallb f = function
| [] -> true
| a :: l0 -> (&&) (f a) (forallb f l0)

(** val firstn : nat -> 'a1 list -> 'a1 list **)

let rec firstn n0 l =
  match n0 with
  | O -> []
  | S n1 -> (match l with
             | [] -> []
             | a :: l0 -> a :: (firstn n1 l0))

(** val skipn : nat -> 'a1 list -> 'a1 list **)

let rec skipn n0 l =
  match n0 with
  | O -> l
  | S n1 -> (match l with
             | [] -> []
             | _ :: l0 -> skipn n1 l0)

(** val repeat : 'a1 -> nat -> 'a1 list **)

let rec repeat x = function
| O -> []
| S k -> x :: (repeat x k)

type ascii =
| Ascii of bool * bool * bool * bool * bool * bool * bool * bool

(** val n_of_digits : bool list -> n **)

let rec n_of_digits = function
| [] -> N0
| b :: l' ->
  N.add (if b then Npos XH else N0) (N.mul (Npos (XO XH)) (n_of_digits l'))

(** val n_of_ascii : ascii -> n **)

let n_of_ascii = function
| Ascii (a0, a1, a2, a3, a4, a5, a6, a7) ->
  n_of_digits
    (a0 :: (a1 :: (a2 :: (a3 :: (a4 :: (a5 :: (a6 :: (a7 :: []))))))))

type string =
| EmptyString
| String of ascii * string

module Coq_Nat = Nat

type 'a res =
| Ok of 'a
| Err
| Panic

(** val rbind : 'a1 res -> ('a1 -> 'a2 res) -> 'a2 res **)

let rbind m f =
  match m with
  | Ok a -> f a
  | Err -> Err
  | Panic -> Panic

type bytes = n list

(** val digits : n -> n -> nat -> n -> bytes **)

let rec digits base off k n0 =
  match k with
  | O -> []
  | S k' ->
    (N.add off (N.modulo (N.div n0 (N.pow base (N.of_nat k'))) base)) :: 
      (digits base off k' n0)

(** val u64be : n -> bytes **)

let u64be n0 =
  digits (Npos (XO (XO (XO (XO (XO (XO (XO (XO XH))))))))) N0 (S (S (S (S (S
    (S (S (S O)))))))) n0

(** val be_val : bytes -> n **)

let be_val l =
  fold_left (fun acc b ->
    N.add (N.mul acc (Npos (XO (XO (XO (XO (XO (XO (XO (XO XH)))))))))) b) l
    N0

(** val be_u64 : bytes -> n res **)

let be_u64 l = match l with
| [] -> Ok N0
| _ :: _ ->
  if Coq_Nat.ltb (length l) (S (S (S (S (S (S (S (S O))))))))
  then Panic
  else Ok (be_val (firstn (S (S (S (S (S (S (S (S O)))))))) l))

(** val len_ok : bytes -> bool **)

let len_ok bz =
  Coq_Nat.leb (length bz) (S (S (S (S (S (S (S (S (S (S (S (S (S (S (S (S (S
    (S (S (S (S (S (S (S (S (S (S (S (S (S (S (S (S (S (S (S (S (S (S (S (S
    (S (S (S (S (S (S (S (S (S (S (S (S (S (S (S (S (S (S (S (S (S (S (S (S
    (S (S (S (S (S (S (S (S (S (S (S (S (S (S (S (S (S (S (S (S (S (S (S (S
    (S (S (S (S (S (S (S (S (S (S (S (S (S (S (S (S (S (S (S (S (S (S (S (S
    (S (S (S (S (S (S (S (S (S (S (S (S (S (S (S (S (S (S (S (S (S (S (S (S
    (S (S (S (S (S (S (S (S (S (S (S (S (S (S (S (S (S (S (S (S (S (S (S (S
    (S (S (S (S (S (S (S (S (S (S (S (S (S (S (S (S (S (S (S (S (S (S (S (S
    (S (S (S (S (S (S (S (S (S (S (S (S (S (S (S (S (S (S (S (S (S (S (S (S
    (S (S (S (S (S (S (S (S (S (S (S (S (S (S (S (S (S (S (S (S (S (S (S (S
    (S (S (S (S (S (S (S (S (S (S (S (S (S (S (S (S (S (S (S (S (S (S
    O)))))))))))))))))))))))))))))))))))))))))))))))))))))))))))))))))))))))))))))))))))))))))))))))))))))))))))))))))))))))))))))))))))))))))))))))))))))))))))))))))))))))))))))))))))))))))))))))))))))))))))))))))))))))))))))))))))))))))))))))))))))))))))))))

(** val len_prefix : bytes -> bytes **)

let len_prefix bz = match bz with
| [] -> []
| _ :: _ -> (N.of_nat (length bz)) :: bz

(** val key_at : bytes -> n -> n res **)

let key_at key i =
  match nth_error key (N.to_nat i) with
  | Some b -> Ok b
  | None -> Panic

(** val slice_from : bytes -> n -> bytes res **)

let slice_from key a =
  if Coq_Nat.ltb (length key) (N.to_nat a)
  then Panic
  else Ok (skipn (N.to_nat a) key)

(** val slice : bytes -> n -> n -> bytes res **)

let slice key a b =
  if (||) (N.ltb b a) (Coq_Nat.ltb (length key) (N.to_nat b))
  then Panic
  else Ok (firstn (sub (N.to_nat b) (N.to_nat a)) (skipn (N.to_nat a) key))

(** val key_len : bytes -> n **)

let key_len key =
  N.of_nat (length key)

(** val bytes_cmp : bytes -> bytes -> comparison **)

let rec bytes_cmp a b =
  match a with
  | [] -> (match b with
           | [] -> Eq
           | _ :: _ -> Lt)
  | x :: a' ->
    (match b with
     | [] -> Gt
     | y :: b' -> (match N.compare x y with
                   | Eq -> bytes_cmp a' b'
                   | x0 -> x0))

(** val bytes_eqb : bytes -> bytes -> bool **)

let rec bytes_eqb a b =
  match a with
  | [] -> (match b with
           | [] -> true
           | _ :: _ -> false)
  | x :: a' ->
    (match b with
     | [] -> false
     | y :: b' -> (&&) (N.eqb x y) (bytes_eqb a' b'))

(** val bytes_of_string : string -> bytes **)

let rec bytes_of_string = function
| EmptyString -> []
| String (c, s') -> (n_of_ascii c) :: (bytes_of_string s')

(** val nS_PER_S : z **)

let nS_PER_S =
  Zpos (XO (XO (XO (XO (XO (XO (XO (XO (XO (XI (XO (XI (XO (XO (XI (XI (XO
    (XI (XO (XI (XI (XO (XO (XI (XI (XI (XO (XI (XI
    XH)))))))))))))))))))))))))))))

(** val s_PER_DAY : z **)

let s_PER_DAY =
  Zpos (XO (XO (XO (XO (XO (XO (XO (XI (XI (XO (XO (XO (XI (XO (XI (XO
    XH))))))))))))))))

(** val civil_of_doe : z -> (z * z) * z **)

let civil_of_doe doe =
  let yoe =
    Z.div
      (Z.sub
        (Z.add
          (Z.sub doe
            (Z.div doe (Zpos (XO (XO (XI (XO (XI (XI (XO (XI (XI (XO
              XH)))))))))))))
          (Z.div doe (Zpos (XO (XO (XI (XI (XO (XI (XO (XI (XO (XI (XI (XI
            (XO (XO (XO XH))))))))))))))))))
        (Z.div doe (Zpos (XO (XO (XO (XO (XI (XI (XO (XI (XO (XI (XO (XI (XI
          (XI (XO (XO (XO XH)))))))))))))))))))) (Zpos (XI (XO (XI (XI (XO
      (XI (XI (XO XH)))))))))
  in
  let doy =
    Z.sub doe
      (Z.sub
        (Z.add (Z.mul (Zpos (XI (XO (XI (XI (XO (XI (XI (XO XH))))))))) yoe)
          (Z.div yoe (Zpos (XO (XO XH)))))
        (Z.div yoe (Zpos (XO (XO (XI (XO (XO (XI XH)))))))))
  in
  let mp =
    Z.div (Z.add (Z.mul (Zpos (XI (XO XH))) doy) (Zpos (XO XH))) (Zpos (XI
      (XO (XO (XI (XI (XO (XO XH))))))))
  in
  let d =
    Z.add
      (Z.sub doy
        (Z.div
          (Z.add (Z.mul (Zpos (XI (XO (XO (XI (XI (XO (XO XH)))))))) mp)
            (Zpos (XO XH))) (Zpos (XI (XO XH))))) (Zpos XH)
  in
  let m =
    if Z.ltb mp (Zpos (XO (XI (XO XH))))
    then Z.add mp (Zpos (XI XH))
    else Z.sub mp (Zpos (XI (XO (XO XH))))
  in
  let y = Z.add yoe (if Z.leb m (Zpos (XO XH)) then Zpos XH else Z0) in
  ((y, m), d)

(** val civil_from_days : z -> (z * z) * z **)

let civil_from_days days =
  let z0 =
    Z.add days (Zpos (XO (XO (XI (XI (XO (XI (XI (XO (XO (XI (XO (XI (XI (XI
      (XI (XI (XO (XI (XO XH))))))))))))))))))))
  in
  let era =
    Z.div z0 (Zpos (XI (XO (XO (XO (XI (XI (XO (XI (XO (XI (XO (XI (XI (XI
      (XO (XO (XO XH))))))))))))))))))
  in
  let doe =
    Z.modulo z0 (Zpos (XI (XO (XO (XO (XI (XI (XO (XI (XO (XI (XO (XI (XI (XI
      (XO (XO (XO XH))))))))))))))))))
  in
  let (p, d) = civil_of_doe doe in
  let (y, m) = p in
  (((Z.add y (Z.mul era (Zpos (XO (XO (XO (XO (XI (XO (XO (XI XH))))))))))),
  m), d)

(** val mIN_TIME : z **)

let mIN_TIME =
  Z.mul (Zneg (XO (XO (XO (XO (XO (XO (XO (XO (XI (XI (XI (XO (XI (XI (XI (XI
    (XI (XO (XO (XO (XI (XO (XO (XI (XI (XI (XI (XO (XI (XI (XI (XO (XO (XI
    (XI XH)))))))))))))))))))))))))))))))))))) nS_PER_S

(** val mAX_TIME : z **)

let mAX_TIME =
  Z.add
    (Z.mul (Zpos (XI (XI (XI (XI (XI (XI (XI (XO (XI (XO (XO (XO (XO (XO (XI
      (XO (XO (XO (XI (XO (XI (XI (XI (XI (XI (XI (XI (XI (XI (XI (XI (XI (XO
      (XI (XO (XI (XI XH)))))))))))))))))))))))))))))))))))))) nS_PER_S)
    (Zpos (XI (XI (XI (XI (XI (XI (XI (XI (XI (XO (XO (XI (XO (XO (XI (XI (XO
    (XI (XO (XI (XI (XO (XO (XI (XI (XI (XO (XI (XI
    XH))))))))))))))))))))))))))))))

(** val time_ok : z -> bool **)

let time_ok t0 =
  (&&) (Z.leb mIN_TIME t0) (Z.leb t0 mAX_TIME)

(** val dec : nat -> z -> bytes **)

let dec k v =
  digits (Npos (XO (XI (XO XH)))) (Npos (XO (XO (XO (XO (XI XH)))))) k
    (Z.to_N v)

(** val fmt_time : z -> bytes **)

let fmt_time t0 =
  let secs = Z.div t0 nS_PER_S in
  let ns = Z.modulo t0 nS_PER_S in
  let days = Z.div secs s_PER_DAY in
  let sod = Z.modulo secs s_PER_DAY in
  let (p, d) = civil_from_days days in
  let (y, m) = p in
  app (dec (S (S (S (S O)))) y)
    (app ((Npos (XI (XO (XI (XI (XO XH)))))) :: [])
      (app (dec (S (S O)) m)
        (app ((Npos (XI (XO (XI (XI (XO XH)))))) :: [])
          (app (dec (S (S O)) d)
            (app ((Npos (XO (XO (XI (XO (XI (XO XH))))))) :: [])
              (app
                (dec (S (S O))
                  (Z.div sod (Zpos (XO (XO (XO (XO (XI (XO (XO (XO (XO (XI
                    (XI XH))))))))))))))
                (app ((Npos (XO (XI (XO (XI (XI XH)))))) :: [])
                  (app
                    (dec (S (S O))
                      (Z.div
                        (Z.modulo sod (Zpos (XO (XO (XO (XO (XI (XO (XO (XO
                          (XO (XI (XI XH))))))))))))) (Zpos (XO (XO (XI (XI
                        (XI XH))))))))
                    (app ((Npos (XO (XI (XO (XI (XI XH)))))) :: [])
                      (app
                        (dec (S (S O))
                          (Z.modulo sod (Zpos (XO (XO (XI (XI (XI XH))))))))
                        (app ((Npos (XO (XI (XI (XI (XO XH)))))) :: [])
                          (dec (S (S (S (S (S (S (S (S (S O))))))))) ns))))))))))))

(** val charset : bytes **)

let charset =
  bytes_of_string (String ((Ascii (true, false, false, false, true, true,
    true, false)), (String ((Ascii (false, false, false, false, true, true,
    true, false)), (String ((Ascii (false, true, false, true, true, true,
    true, false)), (String ((Ascii (false, true, false, false, true, true,
    true, false)), (String ((Ascii (true, false, false, true, true, true,
    true, false)), (String ((Ascii (true, false, false, true, true, true,
    false, false)), (String ((Ascii (false, false, false, true, true, true,
    true, false)), (String ((Ascii (false, false, false, true, true, true,
    false, false)), (String ((Ascii (true, true, true, false, false, true,
    true, false)), (String ((Ascii (false, true, true, false, false, true,
    true, false)), (String ((Ascii (false, true, false, false, true, true,
    false, false)), (String ((Ascii (false, false, true, false, true, true,
    true, false)), (String ((Ascii (false, true, true, false, true, true,
    true, false)), (String ((Ascii (false, false, true, false, false, true,
    true, false)), (String ((Ascii (true, true, true, false, true, true,
    true, false)), (String ((Ascii (false, false, false, false, true, true,
    false, false)), (String ((Ascii (true, true, false, false, true, true,
    true, false)), (String ((Ascii (true, true, false, false, true, true,
    false, false)), (String ((Ascii (false, true, false, true, false, true,
    true, false)), (String ((Ascii (false, true, true, true, false, true,
    true, false)), (String ((Ascii (true, false, true, false, true, true,
    false, false)), (String ((Ascii (false, false, true, false, true, true,
    false, false)), (String ((Ascii (true, true, false, true, false, true,
    true, false)), (String ((Ascii (false, false, false, true, false, true,
    true, false)), (String ((Ascii (true, true, false, false, false, true,
    true, false)), (String ((Ascii (true, false, true, false, false, true,
    true, false)), (String ((Ascii (false, true, true, false, true, true,
    false, false)), (String ((Ascii (true, false, true, true, false, true,
    true, false)), (String ((Ascii (true, false, true, false, true, true,
    true, false)), (String ((Ascii (true, false, false, false, false, true,
    true, false)), (String ((Ascii (true, true, true, false, true, true,
    false, false)), (String ((Ascii (false, false, true, true, false, true,
    true, false)),
    EmptyString))))))))))))))))))))))))))))))))))))))))))))))))))))))))))))))))

(** val gEN0 : n **)

let gEN0 =
  Npos (XO (XI (XO (XO (XI (XI (XO (XI (XI (XI (XI (XO (XI (XO (XI (XO (XO
    (XI (XO (XI (XO (XI (XI (XO (XI (XI (XO (XI (XI
    XH)))))))))))))))))))))))))))))

(** val gEN1 : n **)

let gEN1 =
  Npos (XI (XO (XI (XI (XO (XI (XI (XO (XO (XI (XI (XI (XO (XO (XO (XI (XO
    (XO (XO (XO (XI (XO (XI (XO (XO (XI (XI (XO (XO
    XH)))))))))))))))))))))))))))))

(** val gEN2 : n **)

let gEN2 =
  Npos (XO (XI (XO (XI (XI (XI (XI (XI (XI (XO (XO (XI (XI (XO (XO (XO (XI
    (XO (XO (XO (XO (XI (XO (XI (XO (XI (XI (XI XH))))))))))))))))))))))))))))

(** val gEN3 : n **)

let gEN3 =
  Npos (XI (XO (XI (XI (XI (XO (XI (XI (XI (XI (XO (XO (XI (XI (XO (XO (XO
    (XI (XO (XO (XO (XO (XI (XO (XI (XO (XI (XI (XI
    XH)))))))))))))))))))))))))))))

(** val gEN4 : n **)

let gEN4 =
  Npos (XI (XI (XO (XO (XI (XI (XO (XI (XO (XI (XO (XO (XO (XI (XI (XO (XO
    (XO (XI (XO (XI (XO (XO (XO (XO (XI (XO (XI (XO
    XH)))))))))))))))))))))))))))))

(** val mASK25 : n **)

let mASK25 =
  Npos (XI (XI (XI (XI (XI (XI (XI (XI (XI (XI (XI (XI (XI (XI (XI (XI (XI
    (XI (XI (XI (XI (XI (XI (XI XH))))))))))))))))))))))))

(** val sel : n -> n -> n -> n **)

let sel b i g =
  if N.testbit b i then g else N0

(** val gen_mix : n -> n **)

let gen_mix b =
  N.coq_lxor (sel b N0 gEN0)
    (N.coq_lxor (sel b (Npos XH) gEN1)
      (N.coq_lxor (sel b (Npos (XO XH)) gEN2)
        (N.coq_lxor (sel b (Npos (XI XH)) gEN3)
          (sel b (Npos (XO (XO XH))) gEN4))))

(** val pm_step : n -> n -> n **)

let pm_step chk v =
  N.coq_lxor
    (N.coq_lxor (N.shiftl (N.coq_land chk mASK25) (Npos (XI (XO XH)))) v)
    (gen_mix (N.shiftr chk (Npos (XI (XO (XO (XI XH)))))))

(** val hrp_expand : bytes -> n list **)

let hrp_expand hrp =
  app (map (fun c -> N.shiftr c (Npos (XI (XO XH)))) hrp)
    (app (N0 :: [])
      (map (fun c -> N.coq_land c (Npos (XI (XI (XI (XI XH)))))) hrp))

(** val polymod : bytes -> n list -> n list -> n **)

let polymod hrp values checksum0 =
  fold_left pm_step (app (hrp_expand hrp) (app values checksum0)) (Npos XH)

(** val zERO6 : n list **)

let zERO6 =
  N0 :: (N0 :: (N0 :: (N0 :: (N0 :: (N0 :: [])))))

(** val checksum : bytes -> n list -> n list **)

let checksum hrp data =
  let pm = N.coq_lxor (polymod hrp data zERO6) (Npos XH) in
  map (fun i ->
    N.coq_land
      (N.shiftr pm (N.mul (Npos (XI (XO XH))) (N.sub (Npos (XI (XO XH))) i)))
      (Npos (XI (XI (XI (XI XH)))))) (N0 :: ((Npos XH) :: ((Npos (XO
    XH)) :: ((Npos (XI XH)) :: ((Npos (XO (XO XH))) :: ((Npos (XI (XO
    XH))) :: []))))))

(** val to_lower : n -> n **)

let to_lower c =
  if (&&) (N.leb (Npos (XI (XO (XO (XO (XO (XO XH))))))) c)
       (N.leb c (Npos (XO (XI (XO (XI (XI (XO XH))))))))
  then N.add c (Npos (XO (XO (XO (XO (XO XH))))))
  else c

(** val char_of : n -> n **)

let char_of v =
  nth (N.to_nat v) charset N0

(** val index_of : n -> n list -> n -> n option **)

let rec index_of c l i =
  match l with
  | [] -> None
  | x :: l' -> if N.eqb x c then Some i else index_of c l' (N.add i (Npos XH))

(** val char_index : n -> n option **)

let char_index c =
  index_of c charset N0

(** val to_values : bytes -> n list option **)

let rec to_values = function
| [] -> Some []
| c :: s' ->
  (match char_index c with
   | Some v ->
     (match to_values s' with
      | Some vs -> Some (v :: vs)
      | None -> None)
   | None -> None)

(** val bech32_encode : bytes -> n list -> bytes option **)

let bech32_encode hrp data =
  let hrp' = map to_lower hrp in
  if forallb (fun v -> N.ltb v (Npos (XO (XO (XO (XO (XO XH))))))) data
  then Some
         (app hrp'
           (app ((Npos (XI (XO (XO (XO (XI XH)))))) :: [])
             (app (map char_of data) (map char_of (checksum hrp' data)))))
  else None

(** val is_lower : n -> bool **)

let is_lower c =
  (&&) (N.leb (Npos (XI (XO (XO (XO (XO (XI XH))))))) c)
    (N.leb c (Npos (XO (XI (XO (XI (XI (XI XH))))))))

(** val is_upper : n -> bool **)

let is_upper c =
  (&&) (N.leb (Npos (XI (XO (XO (XO (XO (XO XH))))))) c)
    (N.leb c (Npos (XO (XI (XO (XI (XI (XO XH))))))))

(** val printable : n -> bool **)

let printable c =
  (&&) (N.leb (Npos (XI (XO (XO (XO (XO XH)))))) c)
    (N.leb c (Npos (XO (XI (XI (XI (XI (XI XH))))))))

(** val normalize : bytes -> bytes option **)

let normalize s =
  if negb (forallb printable s)
  then None
  else if (&&) (existsb is_lower s) (existsb is_upper s)
       then None
       else if existsb is_upper s then Some (map to_lower s) else Some s

(** val last_index : n -> bytes -> nat -> nat option -> nat option **)

let rec last_index c s i acc =
  match s with
  | [] -> acc
  | x :: s' -> last_index c s' (S i) (if N.eqb x c then Some i else acc)

(** val bech32_decode : bytes -> nat -> (bytes * n list) option **)

let bech32_decode s limit =
  if Coq_Nat.ltb limit (length s)
  then None
  else if Coq_Nat.ltb (length s) (S (S (S (S (S (S (S (S O))))))))
       then None
       else (match normalize s with
             | Some s' ->
               (match last_index (Npos (XI (XO (XO (XO (XI XH)))))) s' O None with
                | Some one0 ->
                  if (||) (Coq_Nat.ltb one0 (S O))
                       (Coq_Nat.ltb (length s')
                         (add one0 (S (S (S (S (S (S (S O)))))))))
                  then None
                  else let hrp = firstn one0 s' in
                       (match to_values (skipn (add one0 (S O)) s') with
                        | Some dec0 ->
                          let n0 = sub (length dec0) (S (S (S (S (S (S O))))))
                          in
                          if N.eqb
                               (polymod hrp (firstn n0 dec0) (skipn n0 dec0))
                               (Npos XH)
                          then Some (hrp, (firstn n0 dec0))
                          else None
                        | None -> None)
                | None -> None)
             | None -> None)

(** val bits_of : nat -> n -> bool list **)

let rec bits_of w v =
  match w with
  | O -> []
  | S w' -> (N.testbit v (N.of_nat w')) :: (bits_of w' v)

(** val bits_val : bool list -> n **)

let bits_val bs =
  fold_left (fun acc b ->
    N.add (N.mul (Npos (XO XH)) acc) (if b then Npos XH else N0)) bs N0

(** val take_bits : nat -> bool list -> n -> (n * bool list) option **)

let rec take_bits w bs acc =
  match w with
  | O -> Some (acc, bs)
  | S w' ->
    (match bs with
     | [] -> None
     | b :: bs' ->
       take_bits w' bs'
         (N.add (N.mul (Npos (XO XH)) acc) (if b then Npos XH else N0)))

(** val group_bits : nat -> nat -> bool list -> n list * bool list **)

let rec group_bits fuel w bs =
  match fuel with
  | O -> ([], bs)
  | S fuel' ->
    (match take_bits w bs N0 with
     | Some p ->
       let (v, rest) = p in
       let (gs, r) = group_bits fuel' w rest in ((v :: gs), r)
     | None -> ([], bs))

(** val convert_bits : nat -> nat -> bool -> n list -> n list option **)

let convert_bits from to0 pad data =
  let bs = flat_map (bits_of from) data in
  let (gs, rest) = group_bits (length bs) to0 bs in
  (match rest with
   | [] -> Some gs
   | _ :: _ ->
     if pad
     then Some
            (app gs
              ((bits_val (app rest (repeat false (sub to0 (length rest))))) :: []))
     else if (||) (Coq_Nat.ltb (S (S (S (S O)))) (length rest))
               (negb (N.eqb (bits_val rest) N0))
          then None
          else Some gs)

(** val convert_and_encode : bytes -> bytes -> bytes option **)

let convert_and_encode hrp data =
  match convert_bits (S (S (S (S (S (S (S (S O)))))))) (S (S (S (S (S O)))))
          true data with
  | Some c -> bech32_encode hrp c
  | None -> None

(** val decode_and_convert : bytes -> (bytes * bytes) option **)

let decode_and_convert s =
  match bech32_decode s (S (S (S (S (S (S (S (S (S (S (S (S (S (S (S (S (S (S
          (S (S (S (S (S (S (S (S (S (S (S (S (S (S (S (S (S (S (S (S (S (S
          (S (S (S (S (S (S (S (S (S (S (S (S (S (S (S (S (S (S (S (S (S (S
          (S (S (S (S (S (S (S (S (S (S (S (S (S (S (S (S (S (S (S (S (S (S
          (S (S (S (S (S (S (S (S (S (S (S (S (S (S (S (S (S (S (S (S (S (S
          (S (S (S (S (S (S (S (S (S (S (S (S (S (S (S (S (S (S (S (S (S (S
          (S (S (S (S (S (S (S (S (S (S (S (S (S (S (S (S (S (S (S (S (S (S
          (S (S (S (S (S (S (S (S (S (S (S (S (S (S (S (S (S (S (S (S (S (S
          (S (S (S (S (S (S (S (S (S (S (S (S (S (S (S (S (S (S (S (S (S (S
          (S (S (S (S (S (S (S (S (S (S (S (S (S (S (S (S (S (S (S (S (S (S
          (S (S (S (S (S (S (S (S (S (S (S (S (S (S (S (S (S (S (S (S (S (S
          (S (S (S (S (S (S (S (S (S (S (S (S (S (S (S (S (S (S (S (S (S (S
          (S (S (S (S (S (S (S (S (S (S (S (S (S (S (S (S (S (S (S (S (S (S
          (S (S (S (S (S (S (S (S (S (S (S (S (S (S (S (S (S (S (S (S (S (S
          (S (S (S (S (S (S (S (S (S (S (S (S (S (S (S (S (S (S (S (S (S (S
          (S (S (S (S (S (S (S (S (S (S (S (S (S (S (S (S (S (S (S (S (S (S
          (S (S (S (S (S (S (S (S (S (S (S (S (S (S (S (S (S (S (S (S (S (S
          (S (S (S (S (S (S (S (S (S (S (S (S (S (S (S (S (S (S (S (S (S (S
          (S (S (S (S (S (S (S (S (S (S (S (S (S (S (S (S (S (S (S (S (S (S
          (S (S (S (S (S (S (S (S (S (S (S (S (S (S (S (S (S (S (S (S (S (S
          (S (S (S (S (S (S (S (S (S (S (S (S (S (S (S (S (S (S (S (S (S (S
          (S (S (S (S (S (S (S (S (S (S (S (S (S (S (S (S (S (S (S (S (S (S
          (S (S (S (S (S (S (S (S (S (S (S (S (S (S (S (S (S (S (S (S (S (S
          (S (S (S (S (S (S (S (S (S (S (S (S (S (S (S (S (S (S (S (S (S (S
          (S (S (S (S (S (S (S (S (S (S (S (S (S (S (S (S (S (S (S (S (S (S
          (S (S (S (S (S (S (S (S (S (S (S (S (S (S (S (S (S (S (S (S (S (S
          (S (S (S (S (S (S (S (S (S (S (S (S (S (S (S (S (S (S (S (S (S (S
          (S (S (S (S (S (S (S (S (S (S (S (S (S (S (S (S (S (S (S (S (S (S
          (S (S (S (S (S (S (S (S (S (S (S (S (S (S (S (S (S (S (S (S (S (S
          (S (S (S (S (S (S (S (S (S (S (S (S (S (S (S (S (S (S (S (S (S (S
          (S (S (S (S (S (S (S (S (S (S (S (S (S (S (S (S (S (S (S (S (S (S
          (S (S (S (S (S (S (S (S (S (S (S (S (S (S (S (S (S (S (S (S (S (S
          (S (S (S (S (S (S (S (S (S (S (S (S (S (S (S (S (S (S (S (S (S (S
          (S (S (S (S (S (S (S (S (S (S (S (S (S (S (S (S (S (S (S (S (S (S
          (S (S (S (S (S (S (S (S (S (S (S (S (S (S (S (S (S (S (S (S (S (S
          (S (S (S (S (S (S (S (S (S (S (S (S (S (S (S (S (S (S (S (S (S (S
          (S (S (S (S (S (S (S (S (S (S (S (S (S (S (S (S (S (S (S (S (S (S
          (S (S (S (S (S (S (S (S (S (S (S (S (S (S (S (S (S (S (S (S (S (S
          (S (S (S (S (S (S (S (S (S (S (S (S (S (S (S (S (S (S (S (S (S (S
          (S (S (S (S (S (S (S (S (S (S (S (S (S (S (S (S (S (S (S (S (S (S
          (S (S (S (S (S (S (S (S (S (S (S (S (S (S (S (S (S (S (S (S (S (S
          (S (S (S (S (S (S (S (S (S (S (S (S (S (S (S (S (S (S (S (S (S (S
          (S (S (S (S (S (S (S (S (S (S (S (S (S (S (S (S (S (S (S (S (S (S
          (S (S (S (S (S (S (S (S (S (S (S (S (S (S (S (S (S (S (S (S (S (S
          (S (S (S (S (S (S (S (S (S (S (S (S (S (S (S (S (S (S (S (S (S (S
          (S (S (S (S (S (S (S (S (S (S (S (S (S (S (S (S (S (S (S (S (S (S
          (S (S (S (S (S (S (S (S (S (S (S (S (S (S (S
          O))))))))))))))))))))))))))))))))))))))))))))))))))))))))))))))))))))))))))))))))))))))))))))))))))))))))))))))))))))))))))))))))))))))))))))))))))))))))))))))))))))))))))))))))))))))))))))))))))))))))))))))))))))))))))))))))))))))))))))))))))))))))))))))))))))))))))))))))))))))))))))))))))))))))))))))))))))))))))))))))))))))))))))))))))))))))))))))))))))))))))))))))))))))))))))))))))))))))))))))))))))))))))))))))))))))))))))))))))))))))))))))))))))))))))))))))))))))))))))))))))))))))))))))))))))))))))))))))))))))))))))))))))))))))))))))))))))))))))))))))))))))))))))))))))))))))))))))))))))))))))))))))))))))))))))))))))))))))))))))))))))))))))))))))))))))))))))))))))))))))))))))))))))))))))))))))))))))))))))))))))))))))))))))))))))))))))))))))))))))))))))))))))))))))))))))))))))))))))))))))))))))))))))))))))))))))))))))))))))))))))))))))))))))))))))))))))))))))))))))))))))))))))))))))))))))))))))))))))))))))))))))))))))))))))))))))))))))))))))))))))))))))))))))))))))))))))))))))))))))))))))))))))))))))))))))) with
  | Some p ->
    let (hrp, d5) = p in
    (match convert_bits (S (S (S (S (S O))))) (S (S (S (S (S (S (S (S
             O)))))))) false d5 with
     | Some d8 -> Some (hrp, d8)
     | None -> None)
  | None -> None

(** val get_from_bech32 : bytes -> bytes -> bytes option **)

let get_from_bech32 s prefix =
  match s with
  | [] -> None
  | _ :: _ ->
    (match decode_and_convert s with
     | Some p ->
       let (hrp, bz) = p in if bytes_eqb hrp prefix then Some bz else None
     | None -> None)

(** val verify_address_format : bytes -> bool **)

let verify_address_format bz =
  (&&) (negb (Nat.eqb (length bz) O))
    (Coq_Nat.leb (length bz) (S (S (S (S (S (S (S (S (S (S (S (S (S (S (S (S
      (S (S (S (S (S (S (S (S (S (S (S (S (S (S (S (S (S (S (S (S (S (S (S (S
      (S (S (S (S (S (S (S (S (S (S (S (S (S (S (S (S (S (S (S (S (S (S (S (S
      (S (S (S (S (S (S (S (S (S (S (S (S (S (S (S (S (S (S (S (S (S (S (S (S
      (S (S (S (S (S (S (S (S (S (S (S (S (S (S (S (S (S (S (S (S (S (S (S (S
      (S (S (S (S (S (S (S (S (S (S (S (S (S (S (S (S (S (S (S (S (S (S (S (S
      (S (S (S (S (S (S (S (S (S (S (S (S (S (S (S (S (S (S (S (S (S (S (S (S
      (S (S (S (S (S (S (S (S (S (S (S (S (S (S (S (S (S (S (S (S (S (S (S (S
      (S (S (S (S (S (S (S (S (S (S (S (S (S (S (S (S (S (S (S (S (S (S (S (S
      (S (S (S (S (S (S (S (S (S (S (S (S (S (S (S (S (S (S (S (S (S (S (S (S
      (S (S (S (S (S (S (S (S (S (S (S (S (S (S (S (S (S (S (S (S (S (S (S
      O))))))))))))))))))))))))))))))))))))))))))))))))))))))))))))))))))))))))))))))))))))))))))))))))))))))))))))))))))))))))))))))))))))))))))))))))))))))))))))))))))))))))))))))))))))))))))))))))))))))))))))))))))))))))))))))))))))))))))))))))))))))))))))))))

(** val is_space : n -> bool **)

let is_space c =
  (||) (N.eqb c (Npos (XO (XO (XO (XO (XO XH)))))))
    ((&&) (N.leb (Npos (XI (XO (XO XH)))) c)
      (N.leb c (Npos (XI (XO (XI XH))))))

(** val trim_left : bytes -> bytes **)

let rec trim_left s = match s with
| [] -> []
| c :: s' -> if is_space c then trim_left s' else s

(** val trim_space : bytes -> bytes **)

let trim_space s =
  rev1 (trim_left (rev1 (trim_left s)))

type arole =
| RoleAcc
| RoleNode
| RoleProv

(** val addr_to_text : (arole -> bytes) -> arole -> bytes -> bytes option **)

let addr_to_text hrp_of0 r a = match a with
| [] -> Some []
| _ :: _ -> convert_and_encode (hrp_of0 r) a

(** val addr_from_text :
    (arole -> bytes) -> arole -> bytes -> bytes option **)

let addr_from_text hrp_of0 r s =
  match trim_space s with
  | [] -> None
  | n0 :: l ->
    let s' = n0 :: l in
    let arg = match r with
              | RoleAcc -> s
              | _ -> s' in
    (match get_from_bech32 arg (hrp_of0 r) with
     | Some bz -> if verify_address_format bz then Some bz else None
     | None -> None)

(** val deposit_DepositKeyPrefix : bytes **)

let deposit_DepositKeyPrefix =
  (Npos (XO (XO (XO (XO XH))))) :: []

(** val deposit_DepositKey : bytes -> bytes **)

let deposit_DepositKey addr =
  app deposit_DepositKeyPrefix (len_prefix addr)

(** val deposit_DepositKey_ok : bytes -> bool **)

let deposit_DepositKey_ok =
  len_ok

(** val deposit_StorePrefix : bytes **)

let deposit_StorePrefix =
  (Npos (XO (XO (XI (XO (XO (XI XH))))))) :: ((Npos (XI (XO (XI (XO (XO (XI
    XH))))))) :: ((Npos (XO (XO (XO (XO (XI (XI XH))))))) :: ((Npos (XI (XI
    (XI (XI (XO (XI XH))))))) :: ((Npos (XI (XI (XO (XO (XI (XI
    XH))))))) :: ((Npos (XI (XO (XO (XI (XO (XI XH))))))) :: ((Npos (XO (XO
    (XI (XO (XI (XI XH))))))) :: ((Npos (XI (XI (XI (XI (XO
    XH)))))) :: [])))))))

(** val mint_InflationKeyPrefix : bytes **)

let mint_InflationKeyPrefix =
  (Npos XH) :: []

(** val mint_InflationKey : z -> bytes **)

let mint_InflationKey t0 =
  app mint_InflationKeyPrefix (fmt_time t0)

(** val mint_InflationKey_ok : z -> bool **)

let mint_InflationKey_ok _ =
  true

(** val mint_StorePrefix : bytes **)

let mint_StorePrefix =
  []

(** val node_NodeKeyPrefix : bytes **)

let node_NodeKeyPrefix =
  (Npos (XO (XO (XO (XO XH))))) :: []

(** val node_ActiveNodeKeyPrefix : bytes **)

let node_ActiveNodeKeyPrefix =
  app node_NodeKeyPrefix ((Npos XH) :: [])

(** val node_InactiveNodeKeyPrefix : bytes **)

let node_InactiveNodeKeyPrefix =
  app node_NodeKeyPrefix ((Npos (XO XH)) :: [])

(** val node_NodeForInactiveAtKeyPrefix : bytes **)

let node_NodeForInactiveAtKeyPrefix =
  (Npos (XI (XO (XO (XO XH))))) :: []

(** val node_NodeForPlanKeyPrefix : bytes **)

let node_NodeForPlanKeyPrefix =
  (Npos (XO (XI (XO (XO XH))))) :: []

(** val node_ActiveNodeKey : bytes -> bytes **)

let node_ActiveNodeKey addr =
  app node_ActiveNodeKeyPrefix (len_prefix addr)

(** val node_ActiveNodeKey_ok : bytes -> bool **)

let node_ActiveNodeKey_ok =
  len_ok

(** val node_InactiveNodeKey : bytes -> bytes **)

let node_InactiveNodeKey addr =
  app node_InactiveNodeKeyPrefix (len_prefix addr)

(** val node_InactiveNodeKey_ok : bytes -> bool **)

let node_InactiveNodeKey_ok =
  len_ok

(** val node_GetNodeForPlanKeyPrefix : n -> bytes **)

let node_GetNodeForPlanKeyPrefix id =
  app node_NodeForPlanKeyPrefix (u64be id)

(** val node_GetNodeForPlanKeyPrefix_ok : n -> bool **)

let node_GetNodeForPlanKeyPrefix_ok _ =
  true

(** val node_NodeForPlanKey : n -> bytes -> bytes **)

let node_NodeForPlanKey id addr =
  app (node_GetNodeForPlanKeyPrefix id) (len_prefix addr)

(** val node_NodeForPlanKey_ok : n -> bytes -> bool **)

let node_NodeForPlanKey_ok id addr =
  (&&) (node_GetNodeForPlanKeyPrefix_ok id) (len_ok addr)

(** val node_GetNodeForInactiveAtKeyPrefix : z -> bytes **)

let node_GetNodeForInactiveAtKeyPrefix at_ =
  app node_NodeForInactiveAtKeyPrefix (fmt_time at_)

(** val node_GetNodeForInactiveAtKeyPrefix_ok : z -> bool **)

let node_GetNodeForInactiveAtKeyPrefix_ok _ =
  true

(** val node_NodeForInactiveAtKey : z -> bytes -> bytes **)

let node_NodeForInactiveAtKey at_ addr =
  app (node_GetNodeForInactiveAtKeyPrefix at_) (len_prefix addr)

(** val node_NodeForInactiveAtKey_ok : z -> bytes -> bool **)

let node_NodeForInactiveAtKey_ok at_ addr =
  (&&) (node_GetNodeForInactiveAtKeyPrefix_ok at_) (len_ok addr)

(** val node_AddressFromNodeForPlanKey : bytes -> bytes res **)

let node_AddressFromNodeForPlanKey key =
  rbind (key_at key (Npos (XI (XO (XO XH))))) (fun b1 ->
    if negb (N.eqb (key_len key) (N.add (Npos (XO (XI (XO XH)))) b1))
    then Panic
    else slice_from key (Npos (XO (XI (XO XH)))))

(** val node_AddressFromNodeForInactiveAtKey : bytes -> bytes res **)

let node_AddressFromNodeForInactiveAtKey key =
  rbind (key_at key (Npos (XO (XI (XI (XI XH)))))) (fun b1 ->
    if negb (N.eqb (key_len key) (N.add (Npos (XI (XI (XI (XI XH))))) b1))
    then Panic
    else slice_from key (Npos (XI (XI (XI (XI XH))))))

(** val node_StorePrefix : bytes **)

let node_StorePrefix =
  (Npos (XO (XI (XI (XI (XO (XI XH))))))) :: ((Npos (XI (XI (XI (XI (XO (XI
    XH))))))) :: ((Npos (XO (XO (XI (XO (XO (XI XH))))))) :: ((Npos (XI (XO
    (XI (XO (XO (XI XH))))))) :: ((Npos (XI (XI (XI (XI (XO XH)))))) :: []))))

(** val plan_CountKey : bytes **)

let plan_CountKey =
  N0 :: []

(** val plan_PlanKeyPrefix : bytes **)

let plan_PlanKeyPrefix =
  (Npos (XO (XO (XO (XO XH))))) :: []

(** val plan_ActivePlanKeyPrefix : bytes **)

let plan_ActivePlanKeyPrefix =
  app plan_PlanKeyPrefix ((Npos XH) :: [])

(** val plan_InactivePlanKeyPrefix : bytes **)

let plan_InactivePlanKeyPrefix =
  app plan_PlanKeyPrefix ((Npos (XO XH)) :: [])

(** val plan_PlanForProviderKeyPrefix : bytes **)

let plan_PlanForProviderKeyPrefix =
  (Npos (XI (XO (XO (XO XH))))) :: []

(** val plan_ActivePlanKey : n -> bytes **)

let plan_ActivePlanKey id =
  app plan_ActivePlanKeyPrefix (u64be id)

(** val plan_ActivePlanKey_ok : n -> bool **)

let plan_ActivePlanKey_ok _ =
  true

(** val plan_InactivePlanKey : n -> bytes **)

let plan_InactivePlanKey id =
  app plan_InactivePlanKeyPrefix (u64be id)

(** val plan_InactivePlanKey_ok : n -> bool **)

let plan_InactivePlanKey_ok _ =
  true

(** val plan_GetPlanForProviderKeyPrefix : bytes -> bytes **)

let plan_GetPlanForProviderKeyPrefix addr =
  app plan_PlanForProviderKeyPrefix (len_prefix addr)

(** val plan_GetPlanForProviderKeyPrefix_ok : bytes -> bool **)

let plan_GetPlanForProviderKeyPrefix_ok =
  len_ok

(** val plan_PlanForProviderKey : bytes -> n -> bytes **)

let plan_PlanForProviderKey addr id =
  app (plan_GetPlanForProviderKeyPrefix addr) (u64be id)

(** val plan_PlanForProviderKey_ok : bytes -> n -> bool **)

let plan_PlanForProviderKey_ok addr _ =
  plan_GetPlanForProviderKeyPrefix_ok addr

(** val plan_IDFromPlanForProviderKey : bytes -> n res **)

let plan_IDFromPlanForProviderKey key =
  rbind (key_at key (Npos XH)) (fun b1 ->
    if negb (N.eqb (key_len key) (N.add (Npos (XO (XI (XO XH)))) b1))
    then Panic
    else rbind (slice_from key (N.add (Npos (XO XH)) b1)) be_u64)

(** val plan_StorePrefix : bytes **)

let plan_StorePrefix =
  (Npos (XO (XO (XO (XO (XI (XI XH))))))) :: ((Npos (XO (XO (XI (XI (XO (XI
    XH))))))) :: ((Npos (XI (XO (XO (XO (XO (XI XH))))))) :: ((Npos (XO (XI
    (XI (XI (XO (XI XH))))))) :: ((Npos (XI (XI (XI (XI (XO XH)))))) :: []))))

(** val provider_ProviderKeyPrefix : bytes **)

let provider_ProviderKeyPrefix =
  (Npos (XO (XO (XO (XO XH))))) :: []

(** val provider_ActiveProviderKeyPrefix : bytes **)

let provider_ActiveProviderKeyPrefix =
  app provider_ProviderKeyPrefix ((Npos XH) :: [])

(** val provider_InactiveProviderKeyPrefix : bytes **)

let provider_InactiveProviderKeyPrefix =
  app provider_ProviderKeyPrefix ((Npos (XO XH)) :: [])

(** val provider_ActiveProviderKey : bytes -> bytes **)

let provider_ActiveProviderKey addr =
  app provider_ActiveProviderKeyPrefix (len_prefix addr)

(** val provider_ActiveProviderKey_ok : bytes -> bool **)

let provider_ActiveProviderKey_ok =
  len_ok

(** val provider_InactiveProviderKey : bytes -> bytes **)

let provider_InactiveProviderKey addr =
  app provider_InactiveProviderKeyPrefix (len_prefix addr)

(** val provider_InactiveProviderKey_ok : bytes -> bool **)

let provider_InactiveProviderKey_ok =
  len_ok

(** val provider_StorePrefix : bytes **)

let provider_StorePrefix =
  (Npos (XO (XO (XO (XO (XI (XI XH))))))) :: ((Npos (XO (XI (XO (XO (XI (XI
    XH))))))) :: ((Npos (XI (XI (XI (XI (XO (XI XH))))))) :: ((Npos (XO (XI
    (XI (XO (XI (XI XH))))))) :: ((Npos (XI (XO (XO (XI (XO (XI
    XH))))))) :: ((Npos (XO (XO (XI (XO (XO (XI XH))))))) :: ((Npos (XI (XO
    (XI (XO (XO (XI XH))))))) :: ((Npos (XO (XI (XO (XO (XI (XI
    XH))))))) :: ((Npos (XI (XI (XI (XI (XO XH)))))) :: []))))))))

(** val session_CountKey : bytes **)

let session_CountKey =
  N0 :: []

(** val session_SessionKeyPrefix : bytes **)

let session_SessionKeyPrefix =
  (Npos (XO (XO (XO (XO XH))))) :: []

(** val session_SessionForInactiveAtKeyPrefix : bytes **)

let session_SessionForInactiveAtKeyPrefix =
  (Npos (XI (XO (XO (XO XH))))) :: []

(** val session_SessionForAccountKeyPrefix : bytes **)

let session_SessionForAccountKeyPrefix =
  (Npos (XO (XI (XO (XO XH))))) :: []

(** val session_SessionForNodeKeyPrefix : bytes **)

let session_SessionForNodeKeyPrefix =
  (Npos (XI (XI (XO (XO XH))))) :: []

(** val session_SessionForSubscriptionKeyPrefix : bytes **)

let session_SessionForSubscriptionKeyPrefix =
  (Npos (XO (XO (XI (XO XH))))) :: []

(** val session_SessionForAllocationKeyPrefix : bytes **)

let session_SessionForAllocationKeyPrefix =
  (Npos (XI (XO (XI (XO XH))))) :: []

(** val session_SessionKey : n -> bytes **)

let session_SessionKey id =
  app session_SessionKeyPrefix (u64be id)

(** val session_SessionKey_ok : n -> bool **)

let session_SessionKey_ok _ =
  true

(** val session_GetSessionForAccountKeyPrefix : bytes -> bytes **)

let session_GetSessionForAccountKeyPrefix addr =
  app session_SessionForAccountKeyPrefix (len_prefix addr)

(** val session_GetSessionForAccountKeyPrefix_ok : bytes -> bool **)

let session_GetSessionForAccountKeyPrefix_ok =
  len_ok

(** val session_SessionForAccountKey : bytes -> n -> bytes **)

let session_SessionForAccountKey addr id =
  app (session_GetSessionForAccountKeyPrefix addr) (u64be id)

(** val session_SessionForAccountKey_ok : bytes -> n -> bool **)

let session_SessionForAccountKey_ok addr _ =
  session_GetSessionForAccountKeyPrefix_ok addr

(** val session_GetSessionForNodeKeyPrefix : bytes -> bytes **)

let session_GetSessionForNodeKeyPrefix addr =
  app session_SessionForNodeKeyPrefix (len_prefix addr)

(** val session_GetSessionForNodeKeyPrefix_ok : bytes -> bool **)

let session_GetSessionForNodeKeyPrefix_ok =
  len_ok

(** val session_SessionForNodeKey : bytes -> n -> bytes **)

let session_SessionForNodeKey addr id =
  app (session_GetSessionForNodeKeyPrefix addr) (u64be id)

(** val session_SessionForNodeKey_ok : bytes -> n -> bool **)

let session_SessionForNodeKey_ok addr _ =
  session_GetSessionForNodeKeyPrefix_ok addr

(** val session_GetSessionForSubscriptionKeyPrefix : n -> bytes **)

let session_GetSessionForSubscriptionKeyPrefix id =
  app session_SessionForSubscriptionKeyPrefix (u64be id)

(** val session_GetSessionForSubscriptionKeyPrefix_ok : n -> bool **)

let session_GetSessionForSubscriptionKeyPrefix_ok _ =
  true

(** val session_SessionForSubscriptionKey : n -> n -> bytes **)

let session_SessionForSubscriptionKey subscriptionID sessionID =
  app (session_GetSessionForSubscriptionKeyPrefix subscriptionID)
    (u64be sessionID)

(** val session_SessionForSubscriptionKey_ok : n -> n -> bool **)

let session_SessionForSubscriptionKey_ok subscriptionID _ =
  session_GetSessionForSubscriptionKeyPrefix_ok subscriptionID

(** val session_GetSessionForAllocationKeyPrefix : n -> bytes -> bytes **)

let session_GetSessionForAllocationKeyPrefix id addr =
  app session_SessionForAllocationKeyPrefix (app (u64be id) (len_prefix addr))

(** val session_GetSessionForAllocationKeyPrefix_ok : n -> bytes -> bool **)

let session_GetSessionForAllocationKeyPrefix_ok _ =
  len_ok

(** val session_SessionForAllocationKey : n -> bytes -> n -> bytes **)

let session_SessionForAllocationKey subscriptionID addr sessionID =
  app (session_GetSessionForAllocationKeyPrefix subscriptionID addr)
    (u64be sessionID)

(** val session_SessionForAllocationKey_ok : n -> bytes -> n -> bool **)

let session_SessionForAllocationKey_ok subscriptionID addr _ =
  session_GetSessionForAllocationKeyPrefix_ok subscriptionID addr

(** val session_GetSessionForInactiveAtKeyPrefix : z -> bytes **)

let session_GetSessionForInactiveAtKeyPrefix at_ =
  app session_SessionForInactiveAtKeyPrefix (fmt_time at_)

(** val session_GetSessionForInactiveAtKeyPrefix_ok : z -> bool **)

let session_GetSessionForInactiveAtKeyPrefix_ok _ =
  true

(** val session_SessionForInactiveAtKey : z -> n -> bytes **)

let session_SessionForInactiveAtKey at_ id =
  app (session_GetSessionForInactiveAtKeyPrefix at_) (u64be id)

(** val session_SessionForInactiveAtKey_ok : z -> n -> bool **)

let session_SessionForInactiveAtKey_ok at_ _ =
  session_GetSessionForInactiveAtKeyPrefix_ok at_

(** val session_IDFromSessionForAccountKey : bytes -> n res **)

let session_IDFromSessionForAccountKey key =
  rbind (key_at key (Npos XH)) (fun b1 ->
    if negb (N.eqb (key_len key) (N.add (Npos (XO (XI (XO XH)))) b1))
    then Panic
    else rbind (slice_from key (N.add (Npos (XO XH)) b1)) be_u64)

(** val session_IDFromSessionForNodeKey : bytes -> n res **)

let session_IDFromSessionForNodeKey key =
  rbind (key_at key (Npos XH)) (fun b1 ->
    if negb (N.eqb (key_len key) (N.add (Npos (XO (XI (XO XH)))) b1))
    then Panic
    else rbind (slice_from key (N.add (Npos (XO XH)) b1)) be_u64)

(** val session_IDFromSessionForSubscriptionKey : bytes -> n res **)

let session_IDFromSessionForSubscriptionKey key =
  if negb (N.eqb (key_len key) (Npos (XI (XO (XO (XO XH))))))
  then Panic
  else rbind (slice_from key (Npos (XI (XO (XO XH))))) be_u64

(** val session_IDFromSessionForAllocationKey : bytes -> n res **)

let session_IDFromSessionForAllocationKey key =
  rbind (key_at key (Npos (XI (XO (XO XH))))) (fun b1 ->
    if negb (N.eqb (key_len key) (N.add (Npos (XO (XI (XO (XO XH))))) b1))
    then Panic
    else rbind (slice_from key (N.add (Npos (XO (XI (XO XH)))) b1)) be_u64)

(** val session_IDFromSessionForInactiveAtKey : bytes -> n res **)

let session_IDFromSessionForInactiveAtKey key =
  if negb (N.eqb (key_len key) (Npos (XO (XI (XI (XO (XO XH)))))))
  then Panic
  else rbind (slice_from key (Npos (XO (XI (XI (XI XH)))))) be_u64

(** val session_StorePrefix : bytes **)

let session_StorePrefix =
  (Npos (XI (XI (XO (XO (XI (XI XH))))))) :: ((Npos (XI (XO (XI (XO (XO (XI
    XH))))))) :: ((Npos (XI (XI (XO (XO (XI (XI XH))))))) :: ((Npos (XI (XI
    (XO (XO (XI (XI XH))))))) :: ((Npos (XI (XO (XO (XI (XO (XI
    XH))))))) :: ((Npos (XI (XI (XI (XI (XO (XI XH))))))) :: ((Npos (XO (XI
    (XI (XI (XO (XI XH))))))) :: ((Npos (XI (XI (XI (XI (XO
    XH)))))) :: [])))))))

(** val subscription_CountKey : bytes **)

let subscription_CountKey =
  N0 :: []

(** val subscription_SubscriptionKeyPrefix : bytes **)

let subscription_SubscriptionKeyPrefix =
  (Npos (XO (XO (XO (XO XH))))) :: []

(** val subscription_SubscriptionForInactiveAtKeyPrefix : bytes **)

let subscription_SubscriptionForInactiveAtKeyPrefix =
  (Npos (XI (XO (XO (XO XH))))) :: []

(** val subscription_SubscriptionForAccountKeyPrefix : bytes **)

let subscription_SubscriptionForAccountKeyPrefix =
  (Npos (XO (XI (XO (XO XH))))) :: []

(** val subscription_SubscriptionForNodeKeyPrefix : bytes **)

let subscription_SubscriptionForNodeKeyPrefix =
  (Npos (XI (XI (XO (XO XH))))) :: []

(** val subscription_SubscriptionForPlanKeyPrefix : bytes **)

let subscription_SubscriptionForPlanKeyPrefix =
  (Npos (XO (XO (XI (XO XH))))) :: []

(** val subscription_AllocationKeyPrefix : bytes **)

let subscription_AllocationKeyPrefix =
  (Npos (XO (XO (XO (XO (XO XH)))))) :: []

(** val subscription_PayoutKeyPrefix : bytes **)

let subscription_PayoutKeyPrefix =
  (Npos (XO (XO (XO (XO (XI XH)))))) :: []

(** val subscription_PayoutForNextAtKeyPrefix : bytes **)

let subscription_PayoutForNextAtKeyPrefix =
  (Npos (XI (XO (XO (XO (XI XH)))))) :: []

(** val subscription_PayoutForAccountKeyPrefix : bytes **)

let subscription_PayoutForAccountKeyPrefix =
  (Npos (XO (XI (XO (XO (XI XH)))))) :: []

(** val subscription_PayoutForNodeKeyPrefix : bytes **)

let subscription_PayoutForNodeKeyPrefix =
  (Npos (XI (XI (XO (XO (XI XH)))))) :: []

(** val subscription_PayoutForAccountByNodeKeyPrefix : bytes **)

let subscription_PayoutForAccountByNodeKeyPrefix =
  (Npos (XO (XO (XI (XO (XI XH)))))) :: []

(** val subscription_SubscriptionKey : n -> bytes **)

let subscription_SubscriptionKey id =
  app subscription_SubscriptionKeyPrefix (u64be id)

(** val subscription_SubscriptionKey_ok : n -> bool **)

let subscription_SubscriptionKey_ok _ =
  true

(** val subscription_GetSubscriptionForAccountKeyPrefix : bytes -> bytes **)

let subscription_GetSubscriptionForAccountKeyPrefix addr =
  app subscription_SubscriptionForAccountKeyPrefix (len_prefix addr)

(** val subscription_GetSubscriptionForAccountKeyPrefix_ok : bytes -> bool **)

let subscription_GetSubscriptionForAccountKeyPrefix_ok =
  len_ok

(** val subscription_SubscriptionForAccountKey : bytes -> n -> bytes **)

let subscription_SubscriptionForAccountKey addr id =
  app (subscription_GetSubscriptionForAccountKeyPrefix addr) (u64be id)

(** val subscription_SubscriptionForAccountKey_ok : bytes -> n -> bool **)

let subscription_SubscriptionForAccountKey_ok addr _ =
  subscription_GetSubscriptionForAccountKeyPrefix_ok addr

(** val subscription_GetSubscriptionForNodeKeyPrefix : bytes -> bytes **)

let subscription_GetSubscriptionForNodeKeyPrefix addr =
  app subscription_SubscriptionForNodeKeyPrefix (len_prefix addr)

(** val subscription_GetSubscriptionForNodeKeyPrefix_ok : bytes -> bool **)

let subscription_GetSubscriptionForNodeKeyPrefix_ok =
  len_ok

(** val subscription_SubscriptionForNodeKey : bytes -> n -> bytes **)

let subscription_SubscriptionForNodeKey addr id =
  app (subscription_GetSubscriptionForNodeKeyPrefix addr) (u64be id)

(** val subscription_SubscriptionForNodeKey_ok : bytes -> n -> bool **)

let subscription_SubscriptionForNodeKey_ok addr _ =
  subscription_GetSubscriptionForNodeKeyPrefix_ok addr

(** val subscription_GetSubscriptionForPlanKeyPrefix : n -> bytes **)

let subscription_GetSubscriptionForPlanKeyPrefix id =
  app subscription_SubscriptionForPlanKeyPrefix (u64be id)

(** val subscription_GetSubscriptionForPlanKeyPrefix_ok : n -> bool **)

let subscription_GetSubscriptionForPlanKeyPrefix_ok _ =
  true

(** val subscription_SubscriptionForPlanKey : n -> n -> bytes **)

let subscription_SubscriptionForPlanKey planID subscriptionID =
  app (subscription_GetSubscriptionForPlanKeyPrefix planID)
    (u64be subscriptionID)

(** val subscription_SubscriptionForPlanKey_ok : n -> n -> bool **)

let subscription_SubscriptionForPlanKey_ok planID _ =
  subscription_GetSubscriptionForPlanKeyPrefix_ok planID

(** val subscription_GetSubscriptionForInactiveAtKeyPrefix : z -> bytes **)

let subscription_GetSubscriptionForInactiveAtKeyPrefix at_ =
  app subscription_SubscriptionForInactiveAtKeyPrefix (fmt_time at_)

(** val subscription_GetSubscriptionForInactiveAtKeyPrefix_ok : z -> bool **)

let subscription_GetSubscriptionForInactiveAtKeyPrefix_ok _ =
  true

(** val subscription_SubscriptionForInactiveAtKey : z -> n -> bytes **)

let subscription_SubscriptionForInactiveAtKey at_ id =
  app (subscription_GetSubscriptionForInactiveAtKeyPrefix at_) (u64be id)

(** val subscription_SubscriptionForInactiveAtKey_ok : z -> n -> bool **)

let subscription_SubscriptionForInactiveAtKey_ok at_ _ =
  subscription_GetSubscriptionForInactiveAtKeyPrefix_ok at_

(** val subscription_GetAllocationForSubscriptionKeyPrefix : n -> bytes **)

let subscription_GetAllocationForSubscriptionKeyPrefix id =
  app subscription_AllocationKeyPrefix (u64be id)

(** val subscription_GetAllocationForSubscriptionKeyPrefix_ok : n -> bool **)

let subscription_GetAllocationForSubscriptionKeyPrefix_ok _ =
  true

(** val subscription_AllocationKey : n -> bytes -> bytes **)

let subscription_AllocationKey id addr =
  app (subscription_GetAllocationForSubscriptionKeyPrefix id)
    (len_prefix addr)

(** val subscription_AllocationKey_ok : n -> bytes -> bool **)

let subscription_AllocationKey_ok id addr =
  (&&) (subscription_GetAllocationForSubscriptionKeyPrefix_ok id)
    (len_ok addr)

(** val subscription_PayoutKey : n -> bytes **)

let subscription_PayoutKey id =
  app subscription_PayoutKeyPrefix (u64be id)

(** val subscription_PayoutKey_ok : n -> bool **)

let subscription_PayoutKey_ok _ =
  true

(** val subscription_GetPayoutForNextAtKeyPrefix : z -> bytes **)

let subscription_GetPayoutForNextAtKeyPrefix at_ =
  app subscription_PayoutForNextAtKeyPrefix (fmt_time at_)

(** val subscription_GetPayoutForNextAtKeyPrefix_ok : z -> bool **)

let subscription_GetPayoutForNextAtKeyPrefix_ok _ =
  true

(** val subscription_PayoutForNextAtKey : z -> n -> bytes **)

let subscription_PayoutForNextAtKey at_ id =
  app (subscription_GetPayoutForNextAtKeyPrefix at_) (u64be id)

(** val subscription_PayoutForNextAtKey_ok : z -> n -> bool **)

let subscription_PayoutForNextAtKey_ok at_ _ =
  subscription_GetPayoutForNextAtKeyPrefix_ok at_

(** val subscription_GetPayoutForAccountKeyPrefix : bytes -> bytes **)

let subscription_GetPayoutForAccountKeyPrefix addr =
  app subscription_PayoutForAccountKeyPrefix (len_prefix addr)

(** val subscription_GetPayoutForAccountKeyPrefix_ok : bytes -> bool **)

let subscription_GetPayoutForAccountKeyPrefix_ok =
  len_ok

(** val subscription_PayoutForAccountKey : bytes -> n -> bytes **)

let subscription_PayoutForAccountKey addr id =
  app (subscription_GetPayoutForAccountKeyPrefix addr) (u64be id)

(** val subscription_PayoutForAccountKey_ok : bytes -> n -> bool **)

let subscription_PayoutForAccountKey_ok addr _ =
  subscription_GetPayoutForAccountKeyPrefix_ok addr

(** val subscription_GetPayoutForNodeKeyPrefix : bytes -> bytes **)

let subscription_GetPayoutForNodeKeyPrefix addr =
  app subscription_PayoutForNodeKeyPrefix (len_prefix addr)

(** val subscription_GetPayoutForNodeKeyPrefix_ok : bytes -> bool **)

let subscription_GetPayoutForNodeKeyPrefix_ok =
  len_ok

(** val subscription_PayoutForNodeKey : bytes -> n -> bytes **)

let subscription_PayoutForNodeKey addr id =
  app (subscription_GetPayoutForNodeKeyPrefix addr) (u64be id)

(** val subscription_PayoutForNodeKey_ok : bytes -> n -> bool **)

let subscription_PayoutForNodeKey_ok addr _ =
  subscription_GetPayoutForNodeKeyPrefix_ok addr

(** val subscription_GetPayoutForAccountByNodeKeyPrefix :
    bytes -> bytes -> bytes **)

let subscription_GetPayoutForAccountByNodeKeyPrefix accAddr nodeAddr =
  app (app subscription_PayoutForAccountByNodeKeyPrefix (len_prefix accAddr))
    (len_prefix nodeAddr)

(** val subscription_GetPayoutForAccountByNodeKeyPrefix_ok :
    bytes -> bytes -> bool **)

let subscription_GetPayoutForAccountByNodeKeyPrefix_ok accAddr nodeAddr =
  (&&) (len_ok accAddr) (len_ok nodeAddr)

(** val subscription_PayoutForAccountByNodeKey :
    bytes -> bytes -> n -> bytes **)

let subscription_PayoutForAccountByNodeKey accAddr nodeAddr id =
  app (subscription_GetPayoutForAccountByNodeKeyPrefix accAddr nodeAddr)
    (u64be id)

(** val subscription_PayoutForAccountByNodeKey_ok :
    bytes -> bytes -> n -> bool **)

let subscription_PayoutForAccountByNodeKey_ok accAddr nodeAddr _ =
  subscription_GetPayoutForAccountByNodeKeyPrefix_ok accAddr nodeAddr

(** val subscription_AccAddrFromSubscriptionForAccountKey :
    bytes -> bytes res **)

let subscription_AccAddrFromSubscriptionForAccountKey key =
  rbind (key_at key (Npos XH)) (fun b1 ->
    if negb (N.eqb (key_len key) (N.add (Npos (XO (XI (XO XH)))) b1))
    then Panic
    else slice key (Npos (XO XH)) (N.add (Npos (XO XH)) b1))

(** val subscription_IDFromSubscriptionForAccountKey : bytes -> n res **)

let subscription_IDFromSubscriptionForAccountKey key =
  rbind (key_at key (Npos XH)) (fun b1 ->
    if negb (N.eqb (key_len key) (N.add (Npos (XO (XI (XO XH)))) b1))
    then Panic
    else rbind (slice_from key (N.add (Npos (XO XH)) b1)) be_u64)

(** val subscription_IDFromSubscriptionForNodeKey : bytes -> n res **)

let subscription_IDFromSubscriptionForNodeKey key =
  rbind (key_at key (Npos XH)) (fun b1 ->
    if negb (N.eqb (key_len key) (N.add (Npos (XO (XI (XO XH)))) b1))
    then Panic
    else rbind (slice_from key (N.add (Npos (XO XH)) b1)) be_u64)

(** val subscription_IDFromSubscriptionForPlanKey : bytes -> n res **)

let subscription_IDFromSubscriptionForPlanKey key =
  if negb (N.eqb (key_len key) (Npos (XI (XO (XO (XO XH))))))
  then Panic
  else rbind (slice_from key (Npos (XI (XO (XO XH))))) be_u64

(** val subscription_IDFromSubscriptionForInactiveAtKey : bytes -> n res **)

let subscription_IDFromSubscriptionForInactiveAtKey key =
  if negb (N.eqb (key_len key) (Npos (XO (XI (XI (XO (XO XH)))))))
  then Panic
  else rbind (slice_from key (Npos (XO (XI (XI (XI XH)))))) be_u64

(** val subscription_IDFromPayoutForAccountKey : bytes -> n res **)

let subscription_IDFromPayoutForAccountKey key =
  rbind (key_at key (Npos XH)) (fun b1 ->
    if negb (N.eqb (key_len key) (N.add (Npos (XO (XI (XO XH)))) b1))
    then Panic
    else rbind (slice_from key (N.add (Npos (XO XH)) b1)) be_u64)

(** val subscription_IDFromPayoutForNodeKey : bytes -> n res **)

let subscription_IDFromPayoutForNodeKey key =
  rbind (key_at key (Npos XH)) (fun b1 ->
    if negb (N.eqb (key_len key) (N.add (Npos (XO (XI (XO XH)))) b1))
    then Panic
    else rbind (slice_from key (N.add (Npos (XO XH)) b1)) be_u64)

(** val subscription_IDFromPayoutForAccountByNodeKey : bytes -> n res **)

let subscription_IDFromPayoutForAccountByNodeKey key =
  rbind (key_at key (Npos XH)) (fun b1 ->
    rbind (key_at key (Npos XH)) (fun b2 ->
      rbind (key_at key (N.add (Npos (XO XH)) b2)) (fun b3 ->
        if negb
             (N.eqb (key_len key)
               (N.add (N.add (Npos (XI (XI (XO XH)))) b1) b3))
        then Panic
        else rbind (slice_from key (N.add (N.add (Npos (XI XH)) b1) b3))
               be_u64)))

(** val subscription_IDFromPayoutForNextAtKey : bytes -> n res **)

let subscription_IDFromPayoutForNextAtKey key =
  if negb (N.eqb (key_len key) (Npos (XO (XI (XI (XO (XO XH)))))))
  then Panic
  else rbind (slice_from key (Npos (XO (XI (XI (XI XH)))))) be_u64

(** val subscription_StorePrefix : bytes **)

let subscription_StorePrefix =
  (Npos (XI (XI (XO (XO (XI (XI XH))))))) :: ((Npos (XI (XO (XI (XO (XI (XI
    XH))))))) :: ((Npos (XO (XI (XO (XO (XO (XI XH))))))) :: ((Npos (XI (XI
    (XO (XO (XI (XI XH))))))) :: ((Npos (XI (XI (XO (XO (XO (XI
    XH))))))) :: ((Npos (XO (XI (XO (XO (XI (XI XH))))))) :: ((Npos (XI (XO
    (XO (XI (XO (XI XH))))))) :: ((Npos (XO (XO (XO (XO (XI (XI
    XH))))))) :: ((Npos (XO (XO (XI (XO (XI (XI XH))))))) :: ((Npos (XI (XO
    (XO (XI (XO (XI XH))))))) :: ((Npos (XI (XI (XI (XI (XO (XI
    XH))))))) :: ((Npos (XO (XI (XI (XI (XO (XI XH))))))) :: ((Npos (XI (XI
    (XI (XI (XO XH)))))) :: []))))))))))))

(** val swap_SwapKeyPrefix : bytes **)

let swap_SwapKeyPrefix =
  (Npos (XO (XO (XO (XO XH))))) :: []

(** val swap_SwapKey : bytes -> bytes **)

let swap_SwapKey hash =
  app swap_SwapKeyPrefix hash

(** val swap_SwapKey_ok : bytes -> bool **)

let swap_SwapKey_ok _ =
  true

(** val swap_StorePrefix : bytes **)

let swap_StorePrefix =
  []

(** val types_Bech32PrefixAccAddr : bytes **)

let types_Bech32PrefixAccAddr =
  (Npos (XI (XI (XO (XO (XI (XI XH))))))) :: ((Npos (XI (XO (XI (XO (XO (XI
    XH))))))) :: ((Npos (XO (XI (XI (XI (XO (XI XH))))))) :: ((Npos (XO (XO
    (XI (XO (XI (XI XH))))))) :: [])))

(** val types_Bech32PrefixProvAddr : bytes **)

let types_Bech32PrefixProvAddr =
  (Npos (XI (XI (XO (XO (XI (XI XH))))))) :: ((Npos (XI (XO (XI (XO (XO (XI
    XH))))))) :: ((Npos (XO (XI (XI (XI (XO (XI XH))))))) :: ((Npos (XO (XO
    (XI (XO (XI (XI XH))))))) :: ((Npos (XO (XO (XO (XO (XI (XI
    XH))))))) :: ((Npos (XO (XI (XO (XO (XI (XI XH))))))) :: ((Npos (XI (XI
    (XI (XI (XO (XI XH))))))) :: ((Npos (XO (XI (XI (XO (XI (XI
    XH))))))) :: [])))))))

(** val types_Bech32PrefixNodeAddr : bytes **)

let types_Bech32PrefixNodeAddr =
  (Npos (XI (XI (XO (XO (XI (XI XH))))))) :: ((Npos (XI (XO (XI (XO (XO (XI
    XH))))))) :: ((Npos (XO (XI (XI (XI (XO (XI XH))))))) :: ((Npos (XO (XO
    (XI (XO (XI (XI XH))))))) :: ((Npos (XO (XI (XI (XI (XO (XI
    XH))))))) :: ((Npos (XI (XI (XI (XI (XO (XI XH))))))) :: ((Npos (XO (XO
    (XI (XO (XO (XI XH))))))) :: ((Npos (XI (XO (XI (XO (XO (XI
    XH))))))) :: [])))))))

(** val hrp_of : arole -> bytes **)

let hrp_of = function
| RoleAcc -> types_Bech32PrefixAccAddr
| RoleNode -> types_Bech32PrefixNodeAddr
| RoleProv -> types_Bech32PrefixProvAddr

(** val gen_prefix_table : (string * bytes) list **)

let gen_prefix_table =
  ((String ((Ascii (false, false, true, false, false, true, true, false)),
    (String ((Ascii (true, false, true, false, false, true, true, false)),
    (String ((Ascii (false, false, false, false, true, true, true, false)),
    (String ((Ascii (true, true, true, true, false, true, true, false)),
    (String ((Ascii (true, true, false, false, true, true, true, false)),
    (String ((Ascii (true, false, false, true, false, true, true, false)),
    (String ((Ascii (false, false, true, false, true, true, true, false)),
    (String ((Ascii (true, true, true, true, true, false, true, false)),
    (String ((Ascii (false, false, true, false, false, false, true, false)),
    (String ((Ascii (true, false, true, false, false, true, true, false)),
    (String ((Ascii (false, false, false, false, true, true, true, false)),
    (String ((Ascii (true, true, true, true, false, true, true, false)),
    (String ((Ascii (true, true, false, false, true, true, true, false)),
    (String ((Ascii (true, false, false, true, false, true, true, false)),
    (String ((Ascii (false, false, true, false, true, true, true, false)),
    (String ((Ascii (true, true, false, true, false, false, true, false)),
    (String ((Ascii (true, false, true, false, false, true, true, false)),
    (String ((Ascii (true, false, false, true, true, true, true, false)),
    (String ((Ascii (false, false, false, false, true, false, true, false)),
    (String ((Ascii (false, true, false, false, true, true, true, false)),
    (String ((Ascii (true, false, true, false, false, true, true, false)),
    (String ((Ascii (false, true, true, false, false, true, true, false)),
    (String ((Ascii (true, false, false, true, false, true, true, false)),
    (String ((Ascii (false, false, false, true, true, true, true, false)),
    EmptyString)))))))))))))))))))))))))))))))))))))))))))))))),
    deposit_DepositKeyPrefix) :: (((String ((Ascii (true, false, true, true,
    false, true, true, false)), (String ((Ascii (true, false, false, true,
    false, true, true, false)), (String ((Ascii (false, true, true, true,
    false, true, true, false)), (String ((Ascii (false, false, true, false,
    true, true, true, false)), (String ((Ascii (true, true, true, true, true,
    false, true, false)), (String ((Ascii (true, false, false, true, false,
    false, true, false)), (String ((Ascii (false, true, true, true, false,
    true, true, false)), (String ((Ascii (false, true, true, false, false,
    true, true, false)), (String ((Ascii (false, false, true, true, false,
    true, true, false)), (String ((Ascii (true, false, false, false, false,
    true, true, false)), (String ((Ascii (false, false, true, false, true,
    true, true, false)), (String ((Ascii (true, false, false, true, false,
    true, true, false)), (String ((Ascii (true, true, true, true, false,
    true, true, false)), (String ((Ascii (false, true, true, true, false,
    true, true, false)), (String ((Ascii (true, true, false, true, false,
    false, true, false)), (String ((Ascii (true, false, true, false, false,
    true, true, false)), (String ((Ascii (true, false, false, true, true,
    true, true, false)), (String ((Ascii (false, false, false, false, true,
    false, true, false)), (String ((Ascii (false, true, false, false, true,
    true, true, false)), (String ((Ascii (true, false, true, false, false,
    true, true, false)), (String ((Ascii (false, true, true, false, false,
    true, true, false)), (String ((Ascii (true, false, false, true, false,
    true, true, false)), (String ((Ascii (false, false, false, true, true,
    true, true, false)),
    EmptyString)))))))))))))))))))))))))))))))))))))))))))))),
    mint_InflationKeyPrefix) :: (((String ((Ascii (false, true, true, true,
    false, true, true, false)), (String ((Ascii (true, true, true, true,
    false, true, true, false)), (String ((Ascii (false, false, true, false,
    false, true, true, false)), (String ((Ascii (true, false, true, false,
    false, true, true, false)), (String ((Ascii (true, true, true, true,
    true, false, true, false)), (String ((Ascii (false, true, true, true,
    false, false, true, false)), (String ((Ascii (true, true, true, true,
    false, true, true, false)), (String ((Ascii (false, false, true, false,
    false, true, true, false)), (String ((Ascii (true, false, true, false,
    false, true, true, false)), (String ((Ascii (true, true, false, true,
    false, false, true, false)), (String ((Ascii (true, false, true, false,
    false, true, true, false)), (String ((Ascii (true, false, false, true,
    true, true, true, false)), (String ((Ascii (false, false, false, false,
    true, false, true, false)), (String ((Ascii (false, true, false, false,
    true, true, true, false)), (String ((Ascii (true, false, true, false,
    false, true, true, false)), (String ((Ascii (false, true, true, false,
    false, true, true, false)), (String ((Ascii (true, false, false, true,
    false, true, true, false)), (String ((Ascii (false, false, false, true,
    true, true, true, false)),
    EmptyString)))))))))))))))))))))))))))))))))))),
    node_NodeKeyPrefix) :: (((String ((Ascii (false, true, true, true, false,
    true, true, false)), (String ((Ascii (true, true, true, true, false,
    true, true, false)), (String ((Ascii (false, false, true, false, false,
    true, true, false)), (String ((Ascii (true, false, true, false, false,
    true, true, false)), (String ((Ascii (true, true, true, true, true,
    false, true, false)), (String ((Ascii (true, false, false, false, false,
    false, true, false)), (String ((Ascii (true, true, false, false, false,
    true, true, false)), (String ((Ascii (false, false, true, false, true,
    true, true, false)), (String ((Ascii (true, false, false, true, false,
    true, true, false)), (String ((Ascii (false, true, true, false, true,
    true, true, false)), (String ((Ascii (true, false, true, false, false,
    true, true, false)), (String ((Ascii (false, true, true, true, false,
    false, true, false)), (String ((Ascii (true, true, true, true, false,
    true, true, false)), (String ((Ascii (false, false, true, false, false,
    true, true, false)), (String ((Ascii (true, false, true, false, false,
    true, true, false)), (String ((Ascii (true, true, false, true, false,
    false, true, false)), (String ((Ascii (true, false, true, false, false,
    true, true, false)), (String ((Ascii (true, false, false, true, true,
    true, true, false)), (String ((Ascii (false, false, false, false, true,
    false, true, false)), (String ((Ascii (false, true, false, false, true,
    true, true, false)), (String ((Ascii (true, false, true, false, false,
    true, true, false)), (String ((Ascii (false, true, true, false, false,
    true, true, false)), (String ((Ascii (true, false, false, true, false,
    true, true, false)), (String ((Ascii (false, false, false, true, true,
    true, true, false)),
    EmptyString)))))))))))))))))))))))))))))))))))))))))))))))),
    node_ActiveNodeKeyPrefix) :: (((String ((Ascii (false, true, true, true,
    false, true, true, false)), (String ((Ascii (true, true, true, true,
    false, true, true, false)), (String ((Ascii (false, false, true, false,
    false, true, true, false)), (String ((Ascii (true, false, true, false,
    false, true, true, false)), (String ((Ascii (true, true, true, true,
    true, false, true, false)), (String ((Ascii (true, false, false, true,
    false, false, true, false)), (String ((Ascii (false, true, true, true,
    false, true, true, false)), (String ((Ascii (true, false, false, false,
    false, true, true, false)), (String ((Ascii (true, true, false, false,
    false, true, true, false)), (String ((Ascii (false, false, true, false,
    true, true, true, false)), (String ((Ascii (true, false, false, true,
    false, true, true, false)), (String ((Ascii (false, true, true, false,
    true, true, true, false)), (String ((Ascii (true, false, true, false,
    false, true, true, false)), (String ((Ascii (false, true, true, true,
    false, false, true, false)), (String ((Ascii (true, true, true, true,
    false, true, true, false)), (String ((Ascii (false, false, true, false,
    false, true, true, false)), (String ((Ascii (true, false, true, false,
    false, true, true, false)), (String ((Ascii (true, true, false, true,
    false, false, true, false)), (String ((Ascii (true, false, true, false,
    false, true, true, false)), (String ((Ascii (true, false, false, true,
    true, true, true, false)), (String ((Ascii (false, false, false, false,
    true, false, true, false)), (String ((Ascii (false, true, false, false,
    true, true, true, false)), (String ((Ascii (true, false, true, false,
    false, true, true, false)), (String ((Ascii (false, true, true, false,
    false, true, true, false)), (String ((Ascii (true, false, false, true,
    false, true, true, false)), (String ((Ascii (false, false, false, true,
    true, true, true, false)),
    EmptyString)))))))))))))))))))))))))))))))))))))))))))))))))))),
    node_InactiveNodeKeyPrefix) :: (((String ((Ascii (false, true, true,
    true, false, true, true, false)), (String ((Ascii (true, true, true,
    true, false, true, true, false)), (String ((Ascii (false, false, true,
    false, false, true, true, false)), (String ((Ascii (true, false, true,
    false, false, true, true, false)), (String ((Ascii (true, true, true,
    true, true, false, true, false)), (String ((Ascii (false, true, true,
    true, false, false, true, false)), (String ((Ascii (true, true, true,
    true, false, true, true, false)), (String ((Ascii (false, false, true,
    false, false, true, true, false)), (String ((Ascii (true, false, true,
    false, false, true, true, false)), (String ((Ascii (false, true, true,
    false, false, false, true, false)), (String ((Ascii (true, true, true,
    true, false, true, true, false)), (String ((Ascii (false, true, false,
    false, true, true, true, false)), (String ((Ascii (true, false, false,
    true, false, false, true, false)), (String ((Ascii (false, true, true,
    true, false, true, true, false)), (String ((Ascii (true, false, false,
    false, false, true, true, false)), (String ((Ascii (true, true, false,
    false, false, true, true, false)), (String ((Ascii (false, false, true,
    false, true, true, true, false)), (String ((Ascii (true, false, false,
    true, false, true, true, false)), (String ((Ascii (false, true, true,
    false, true, true, true, false)), (String ((Ascii (true, false, true,
    false, false, true, true, false)), (String ((Ascii (true, false, false,
    false, false, false, true, false)), (String ((Ascii (false, false, true,
    false, true, true, true, false)), (String ((Ascii (true, true, false,
    true, false, false, true, false)), (String ((Ascii (true, false, true,
    false, false, true, true, false)), (String ((Ascii (true, false, false,
    true, true, true, true, false)), (String ((Ascii (false, false, false,
    false, true, false, true, false)), (String ((Ascii (false, true, false,
    false, true, true, true, false)), (String ((Ascii (true, false, true,
    false, false, true, true, false)), (String ((Ascii (false, true, true,
    false, false, true, true, false)), (String ((Ascii (true, false, false,
    true, false, true, true, false)), (String ((Ascii (false, false, false,
    true, true, true, true, false)),
    EmptyString)))))))))))))))))))))))))))))))))))))))))))))))))))))))))))))),
    node_NodeForInactiveAtKeyPrefix) :: (((String ((Ascii (false, true, true,
    true, false, true, true, false)), (String ((Ascii (true, true, true,
    true, false, true, true, false)), (String ((Ascii (false, false, true,
    false, false, true, true, false)), (String ((Ascii (true, false, true,
    false, false, true, true, false)), (String ((Ascii (true, true, true,
    true, true, false, true, false)), (String ((Ascii (false, true, true,
    true, false, false, true, false)), (String ((Ascii (true, true, true,
    true, false, true, true, false)), (String ((Ascii (false, false, true,
    false, false, true, true, false)), (String ((Ascii (true, false, true,
    false, false, true, true, false)), (String ((Ascii (false, true, true,
    false, false, false, true, false)), (String ((Ascii (true, true, true,
    true, false, true, true, false)), (String ((Ascii (false, true, false,
    false, true, true, true, false)), (String ((Ascii (false, false, false,
    false, true, false, true, false)), (String ((Ascii (false, false, true,
    true, false, true, true, false)), (String ((Ascii (true, false, false,
    false, false, true, true, false)), (String ((Ascii (false, true, true,
    true, false, true, true, false)), (String ((Ascii (true, true, false,
    true, false, false, true, false)), (String ((Ascii (true, false, true,
    false, false, true, true, false)), (String ((Ascii (true, false, false,
    true, true, true, true, false)), (String ((Ascii (false, false, false,
    false, true, false, true, false)), (String ((Ascii (false, true, false,
    false, true, true, true, false)), (String ((Ascii (true, false, true,
    false, false, true, true, false)), (String ((Ascii (false, true, true,
    false, false, true, true, false)), (String ((Ascii (true, false, false,
    true, false, true, true, false)), (String ((Ascii (false, false, false,
    true, true, true, true, false)),
    EmptyString)))))))))))))))))))))))))))))))))))))))))))))))))),
    node_NodeForPlanKeyPrefix) :: (((String ((Ascii (false, false, false,
    false, true, true, true, false)), (String ((Ascii (false, false, true,
    true, false, true, true, false)), (String ((Ascii (true, false, false,
    false, false, true, true, false)), (String ((Ascii (false, true, true,
    true, false, true, true, false)), (String ((Ascii (true, true, true,
    true, true, false, true, false)), (String ((Ascii (true, true, false,
    false, false, false, true, false)), (String ((Ascii (true, true, true,
    true, false, true, true, false)), (String ((Ascii (true, false, true,
    false, true, true, true, false)), (String ((Ascii (false, true, true,
    true, false, true, true, false)), (String ((Ascii (false, false, true,
    false, true, true, true, false)), (String ((Ascii (true, true, false,
    true, false, false, true, false)), (String ((Ascii (true, false, true,
    false, false, true, true, false)), (String ((Ascii (true, false, false,
    true, true, true, true, false)), EmptyString)))))))))))))))))))))))))),
    plan_CountKey) :: (((String ((Ascii (false, false, false, false, true,
    true, true, false)), (String ((Ascii (false, false, true, true, false,
    true, true, false)), (String ((Ascii (true, false, false, false, false,
    true, true, false)), (String ((Ascii (false, true, true, true, false,
    true, true, false)), (String ((Ascii (true, true, true, true, true,
    false, true, false)), (String ((Ascii (false, false, false, false, true,
    false, true, false)), (String ((Ascii (false, false, true, true, false,
    true, true, false)), (String ((Ascii (true, false, false, false, false,
    true, true, false)), (String ((Ascii (false, true, true, true, false,
    true, true, false)), (String ((Ascii (true, true, false, true, false,
    false, true, false)), (String ((Ascii (true, false, true, false, false,
    true, true, false)), (String ((Ascii (true, false, false, true, true,
    true, true, false)), (String ((Ascii (false, false, false, false, true,
    false, true, false)), (String ((Ascii (false, true, false, false, true,
    true, true, false)), (String ((Ascii (true, false, true, false, false,
    true, true, false)), (String ((Ascii (false, true, true, false, false,
    true, true, false)), (String ((Ascii (true, false, false, true, false,
    true, true, false)), (String ((Ascii (false, false, false, true, true,
    true, true, false)), EmptyString)))))))))))))))))))))))))))))))))))),
    plan_PlanKeyPrefix) :: (((String ((Ascii (false, false, false, false,
    true, true, true, false)), (String ((Ascii (false, false, true, true,
    false, true, true, false)), (String ((Ascii (true, false, false, false,
    false, true, true, false)), (String ((Ascii (false, true, true, true,
    false, true, true, false)), (String ((Ascii (true, true, true, true,
    true, false, true, false)), (String ((Ascii (true, false, false, false,
    false, false, true, false)), (String ((Ascii (true, true, false, false,
    false, true, true, false)), (String ((Ascii (false, false, true, false,
    true, true, true, false)), (String ((Ascii (true, false, false, true,
    false, true, true, false)), (String ((Ascii (false, true, true, false,
    true, true, true, false)), (String ((Ascii (true, false, true, false,
    false, true, true, false)), (String ((Ascii (false, false, false, false,
    true, false, true, false)), (String ((Ascii (false, false, true, true,
    false, true, true, false)), (String ((Ascii (true, false, false, false,
    false, true, true, false)), (String ((Ascii (false, true, true, true,
    false, true, true, false)), (String ((Ascii (true, true, false, true,
    false, false, true, false)), (String ((Ascii (true, false, true, false,
    false, true, true, false)), (String ((Ascii (true, false, false, true,
    true, true, true, false)), (String ((Ascii (false, false, false, false,
    true, false, true, false)), (String ((Ascii (false, true, false, false,
    true, true, true, false)), (String ((Ascii (true, false, true, false,
    false, true, true, false)), (String ((Ascii (false, true, true, false,
    false, true, true, false)), (String ((Ascii (true, false, false, true,
    false, true, true, false)), (String ((Ascii (false, false, false, true,
    true, true, true, false)),
    EmptyString)))))))))))))))))))))))))))))))))))))))))))))))),
    plan_ActivePlanKeyPrefix) :: (((String ((Ascii (false, false, false,
    false, true, true, true, false)), (String ((Ascii (false, false, true,
    true, false, true, true, false)), (String ((Ascii (true, false, false,
    false, false, true, true, false)), (String ((Ascii (false, true, true,
    true, false, true, true, false)), (String ((Ascii (true, true, true,
    true, true, false, true, false)), (String ((Ascii (true, false, false,
    true, false, false, true, false)), (String ((Ascii (false, true, true,
    true, false, true, true, false)), (String ((Ascii (true, false, false,
    false, false, true, true, false)), (String ((Ascii (true, true, false,
    false, false, true, true, false)), (String ((Ascii (false, false, true,
    false, true, true, true, false)), (String ((Ascii (true, false, false,
    true, false, true, true, false)), (String ((Ascii (false, true, true,
    false, true, true, true, false)), (String ((Ascii (true, false, true,
    false, false, true, true, false)), (String ((Ascii (false, false, false,
    false, true, false, true, false)), (String ((Ascii (false, false, true,
    true, false, true, true, false)), (String ((Ascii (true, false, false,
    false, false, true, true, false)), (String ((Ascii (false, true, true,
    true, false, true, true, false)), (String ((Ascii (true, true, false,
    true, false, false, true, false)), (String ((Ascii (true, false, true,
    false, false, true, true, false)), (String ((Ascii (true, false, false,
    true, true, true, true, false)), (String ((Ascii (false, false, false,
    false, true, false, true, false)), (String ((Ascii (false, true, false,
    false, true, true, true, false)), (String ((Ascii (true, false, true,
    false, false, true, true, false)), (String ((Ascii (false, true, true,
    false, false, true, true, false)), (String ((Ascii (true, false, false,
    true, false, true, true, false)), (String ((Ascii (false, false, false,
    true, true, true, true, false)),
    EmptyString)))))))))))))))))))))))))))))))))))))))))))))))))))),
    plan_InactivePlanKeyPrefix) :: (((String ((Ascii (false, false, false,
    false, true, true, true, false)), (String ((Ascii (false, false, true,
    true, false, true, true, false)), (String ((Ascii (true, false, false,
    false, false, true, true, false)), (String ((Ascii (false, true, true,
    true, false, true, true, false)), (String ((Ascii (true, true, true,
    true, true, false, true, false)), (String ((Ascii (false, false, false,
    false, true, false, true, false)), (String ((Ascii (false, false, true,
    true, false, true, true, false)), (String ((Ascii (true, false, false,
    false, false, true, true, false)), (String ((Ascii (false, true, true,
    true, false, true, true, false)), (String ((Ascii (false, true, true,
    false, false, false, true, false)), (String ((Ascii (true, true, true,
    true, false, true, true, false)), (String ((Ascii (false, true, false,
    false, true, true, true, false)), (String ((Ascii (false, false, false,
    false, true, false, true, false)), (String ((Ascii (false, true, false,
    false, true, true, true, false)), (String ((Ascii (true, true, true,
    true, false, true, true, false)), (String ((Ascii (false, true, true,
    false, true, true, true, false)), (String ((Ascii (true, false, false,
    true, false, true, true, false)), (String ((Ascii (false, false, true,
    false, false, true, true, false)), (String ((Ascii (true, false, true,
    false, false, true, true, false)), (String ((Ascii (false, true, false,
    false, true, true, true, false)), (String ((Ascii (true, true, false,
    true, false, false, true, false)), (String ((Ascii (true, false, true,
    false, false, true, true, false)), (String ((Ascii (true, false, false,
    true, true, true, true, false)), (String ((Ascii (false, false, false,
    false, true, false, true, false)), (String ((Ascii (false, true, false,
    false, true, true, true, false)), (String ((Ascii (true, false, true,
    false, false, true, true, false)), (String ((Ascii (false, true, true,
    false, false, true, true, false)), (String ((Ascii (true, false, false,
    true, false, true, true, false)), (String ((Ascii (false, false, false,
    true, true, true, true, false)),
    EmptyString)))))))))))))))))))))))))))))))))))))))))))))))))))))))))),
    plan_PlanForProviderKeyPrefix) :: (((String ((Ascii (false, false, false,
    false, true, true, true, false)), (String ((Ascii (false, true, false,
    false, true, true, true, false)), (String ((Ascii (true, true, true,
    true, false, true, true, false)), (String ((Ascii (false, true, true,
    false, true, true, true, false)), (String ((Ascii (true, false, false,
    true, false, true, true, false)), (String ((Ascii (false, false, true,
    false, false, true, true, false)), (String ((Ascii (true, false, true,
    false, false, true, true, false)), (String ((Ascii (false, true, false,
    false, true, true, true, false)), (String ((Ascii (true, true, true,
    true, true, false, true, false)), (String ((Ascii (false, false, false,
    false, true, false, true, false)), (String ((Ascii (false, true, false,
    false, true, true, true, false)), (String ((Ascii (true, true, true,
    true, false, true, true, false)), (String ((Ascii (false, true, true,
    false, true, true, true, false)), (String ((Ascii (true, false, false,
    true, false, true, true, false)), (String ((Ascii (false, false, true,
    false, false, true, true, false)), (String ((Ascii (true, false, true,
    false, false, true, true, false)), (String ((Ascii (false, true, false,
    false, true, true, true, false)), (String ((Ascii (true, true, false,
    true, false, false, true, false)), (String ((Ascii (true, false, true,
    false, false, true, true, false)), (String ((Ascii (true, false, false,
    true, true, true, true, false)), (String ((Ascii (false, false, false,
    false, true, false, true, false)), (String ((Ascii (false, true, false,
    false, true, true, true, false)), (String ((Ascii (true, false, true,
    false, false, true, true, false)), (String ((Ascii (false, true, true,
    false, false, true, true, false)), (String ((Ascii (true, false, false,
    true, false, true, true, false)), (String ((Ascii (false, false, false,
    true, true, true, true, false)),
    EmptyString)))))))))))))))))))))))))))))))))))))))))))))))))))),
    provider_ProviderKeyPrefix) :: (((String ((Ascii (false, false, false,
    false, true, true, true, false)), (String ((Ascii (false, true, false,
    false, true, true, true, false)), (String ((Ascii (true, true, true,
    true, false, true, true, false)), (String ((Ascii (false, true, true,
    false, true, true, true, false)), (String ((Ascii (true, false, false,
    true, false, true, true, false)), (String ((Ascii (false, false, true,
    false, false, true, true, false)), (String ((Ascii (true, false, true,
    false, false, true, true, false)), (String ((Ascii (false, true, false,
    false, true, true, true, false)), (String ((Ascii (true, true, true,
    true, true, false, true, false)), (String ((Ascii (true, false, false,
    false, false, false, true, false)), (String ((Ascii (true, true, false,
    false, false, true, true, false)), (String ((Ascii (false, false, true,
    false, true, true, true, false)), (String ((Ascii (true, false, false,
    true, false, true, true, false)), (String ((Ascii (false, true, true,
    false, true, true, true, false)), (String ((Ascii (true, false, true,
    false, false, true, true, false)), (String ((Ascii (false, false, false,
    false, true, false, true, false)), (String ((Ascii (false, true, false,
    false, true, true, true, false)), (String ((Ascii (true, true, true,
    true, false, true, true, false)), (String ((Ascii (false, true, true,
    false, true, true, true, false)), (String ((Ascii (true, false, false,
    true, false, true, true, false)), (String ((Ascii (false, false, true,
    false, false, true, true, false)), (String ((Ascii (true, false, true,
    false, false, true, true, false)), (String ((Ascii (false, true, false,
    false, true, true, true, false)), (String ((Ascii (true, true, false,
    true, false, false, true, false)), (String ((Ascii (true, false, true,
    false, false, true, true, false)), (String ((Ascii (true, false, false,
    true, true, true, true, false)), (String ((Ascii (false, false, false,
    false, true, false, true, false)), (String ((Ascii (false, true, false,
    false, true, true, true, false)), (String ((Ascii (true, false, true,
    false, false, true, true, false)), (String ((Ascii (false, true, true,
    false, false, true, true, false)), (String ((Ascii (true, false, false,
    true, false, true, true, false)), (String ((Ascii (false, false, false,
    true, true, true, true, false)),
    EmptyString)))))))))))))))))))))))))))))))))))))))))))))))))))))))))))))))),
    provider_ActiveProviderKeyPrefix) :: (((String ((Ascii (false, false,
    false, false, true, true, true, false)), (String ((Ascii (false, true,
    false, false, true, true, true, false)), (String ((Ascii (true, true,
    true, true, false, true, true, false)), (String ((Ascii (false, true,
    true, false, true, true, true, false)), (String ((Ascii (true, false,
    false, true, false, true, true, false)), (String ((Ascii (false, false,
    true, false, false, true, true, false)), (String ((Ascii (true, false,
    true, false, false, true, true, false)), (String ((Ascii (false, true,
    false, false, true, true, true, false)), (String ((Ascii (true, true,
    true, true, true, false, true, false)), (String ((Ascii (true, false,
    false, true, false, false, true, false)), (String ((Ascii (false, true,
    true, true, false, true, true, false)), (String ((Ascii (true, false,
    false, false, false, true, true, false)), (String ((Ascii (true, true,
    false, false, false, true, true, false)), (String ((Ascii (false, false,
    true, false, true, true, true, false)), (String ((Ascii (true, false,
    false, true, false, true, true, false)), (String ((Ascii (false, true,
    true, false, true, true, true, false)), (String ((Ascii (true, false,
    true, false, false, true, true, false)), (String ((Ascii (false, false,
    false, false, true, false, true, false)), (String ((Ascii (false, true,
    false, false, true, true, true, false)), (String ((Ascii (true, true,
    true, true, false, true, true, false)), (String ((Ascii (false, true,
    true, false, true, true, true, false)), (String ((Ascii (true, false,
    false, true, false, true, true, false)), (String ((Ascii (false, false,
    true, false, false, true, true, false)), (String ((Ascii (true, false,
    true, false, false, true, true, false)), (String ((Ascii (false, true,
    false, false, true, true, true, false)), (String ((Ascii (true, true,
    false, true, false, false, true, false)), (String ((Ascii (true, false,
    true, false, false, true, true, false)), (String ((Ascii (true, false,
    false, true, true, true, true, false)), (String ((Ascii (false, false,
    false, false, true, false, true, false)), (String ((Ascii (false, true,
    false, false, true, true, true, false)), (String ((Ascii (true, false,
    true, false, false, true, true, false)), (String ((Ascii (false, true,
    true, false, false, true, true, false)), (String ((Ascii (true, false,
    false, true, false, true, true, false)), (String ((Ascii (false, false,
    false, true, true, true, true, false)),
    EmptyString)))))))))))))))))))))))))))))))))))))))))))))))))))))))))))))))))))),
    provider_InactiveProviderKeyPrefix) :: (((String ((Ascii (true, true,
    false, false, true, true, true, false)), (String ((Ascii (true, false,
    true, false, false, true, true, false)), (String ((Ascii (true, true,
    false, false, true, true, true, false)), (String ((Ascii (true, true,
    false, false, true, true, true, false)), (String ((Ascii (true, false,
    false, true, false, true, true, false)), (String ((Ascii (true, true,
    true, true, false, true, true, false)), (String ((Ascii (false, true,
    true, true, false, true, true, false)), (String ((Ascii (true, true,
    true, true, true, false, true, false)), (String ((Ascii (true, true,
    false, false, false, false, true, false)), (String ((Ascii (true, true,
    true, true, false, true, true, false)), (String ((Ascii (true, false,
    true, false, true, true, true, false)), (String ((Ascii (false, true,
    true, true, false, true, true, false)), (String ((Ascii (false, false,
    true, false, true, true, true, false)), (String ((Ascii (true, true,
    false, true, false, false, true, false)), (String ((Ascii (true, false,
    true, false, false, true, true, false)), (String ((Ascii (true, false,
    false, true, true, true, true, false)),
    EmptyString)))))))))))))))))))))))))))))))),
    session_CountKey) :: (((String ((Ascii (true, true, false, false, true,
    true, true, false)), (String ((Ascii (true, false, true, false, false,
    true, true, false)), (String ((Ascii (true, true, false, false, true,
    true, true, false)), (String ((Ascii (true, true, false, false, true,
    true, true, false)), (String ((Ascii (true, false, false, true, false,
    true, true, false)), (String ((Ascii (true, true, true, true, false,
    true, true, false)), (String ((Ascii (false, true, true, true, false,
    true, true, false)), (String ((Ascii (true, true, true, true, true,
    false, true, false)), (String ((Ascii (true, true, false, false, true,
    false, true, false)), (String ((Ascii (true, false, true, false, false,
    true, true, false)), (String ((Ascii (true, true, false, false, true,
    true, true, false)), (String ((Ascii (true, true, false, false, true,
    true, true, false)), (String ((Ascii (true, false, false, true, false,
    true, true, false)), (String ((Ascii (true, true, true, true, false,
    true, true, false)), (String ((Ascii (false, true, true, true, false,
    true, true, false)), (String ((Ascii (true, true, false, true, false,
    false, true, false)), (String ((Ascii (true, false, true, false, false,
    true, true, false)), (String ((Ascii (true, false, false, true, true,
    true, true, false)), (String ((Ascii (false, false, false, false, true,
    false, true, false)), (String ((Ascii (false, true, false, false, true,
    true, true, false)), (String ((Ascii (true, false, true, false, false,
    true, true, false)), (String ((Ascii (false, true, true, false, false,
    true, true, false)), (String ((Ascii (true, false, false, true, false,
    true, true, false)), (String ((Ascii (false, false, false, true, true,
    true, true, false)),
    EmptyString)))))))))))))))))))))))))))))))))))))))))))))))),
    session_SessionKeyPrefix) :: (((String ((Ascii (true, true, false, false,
    true, true, true, false)), (String ((Ascii (true, false, true, false,
    false, true, true, false)), (String ((Ascii (true, true, false, false,
    true, true, true, false)), (String ((Ascii (true, true, false, false,
    true, true, true, false)), (String ((Ascii (true, false, false, true,
    false, true, true, false)), (String ((Ascii (true, true, true, true,
    false, true, true, false)), (String ((Ascii (false, true, true, true,
    false, true, true, false)), (String ((Ascii (true, true, true, true,
    true, false, true, false)), (String ((Ascii (true, true, false, false,
    true, false, true, false)), (String ((Ascii (true, false, true, false,
    false, true, true, false)), (String ((Ascii (true, true, false, false,
    true, true, true, false)), (String ((Ascii (true, true, false, false,
    true, true, true, false)), (String ((Ascii (true, false, false, true,
    false, true, true, false)), (String ((Ascii (true, true, true, true,
    false, true, true, false)), (String ((Ascii (false, true, true, true,
    false, true, true, false)), (String ((Ascii (false, true, true, false,
    false, false, true, false)), (String ((Ascii (true, true, true, true,
    false, true, true, false)), (String ((Ascii (false, true, false, false,
    true, true, true, false)), (String ((Ascii (true, false, false, true,
    false, false, true, false)), (String ((Ascii (false, true, true, true,
    false, true, true, false)), (String ((Ascii (true, false, false, false,
    false, true, true, false)), (String ((Ascii (true, true, false, false,
    false, true, true, false)), (String ((Ascii (false, false, true, false,
    true, true, true, false)), (String ((Ascii (true, false, false, true,
    false, true, true, false)), (String ((Ascii (false, true, true, false,
    true, true, true, false)), (String ((Ascii (true, false, true, false,
    false, true, true, false)), (String ((Ascii (true, false, false, false,
    false, false, true, false)), (String ((Ascii (false, false, true, false,
    true, true, true, false)), (String ((Ascii (true, true, false, true,
    false, false, true, false)), (String ((Ascii (true, false, true, false,
    false, true, true, false)), (String ((Ascii (true, false, false, true,
    true, true, true, false)), (String ((Ascii (false, false, false, false,
    true, false, true, false)), (String ((Ascii (false, true, false, false,
    true, true, true, false)), (String ((Ascii (true, false, true, false,
    false, true, true, false)), (String ((Ascii (false, true, true, false,
    false, true, true, false)), (String ((Ascii (true, false, false, true,
    false, true, true, false)), (String ((Ascii (false, false, false, true,
    true, true, true, false)),
    EmptyString)))))))))))))))))))))))))))))))))))))))))))))))))))))))))))))))))))))))))),
    session_SessionForInactiveAtKeyPrefix) :: (((String ((Ascii (true, true,
    false, false, true, true, true, false)), (String ((Ascii (true, false,
    true, false, false, true, true, false)), (String ((Ascii (true, true,
    false, false, true, true, true, false)), (String ((Ascii (true, true,
    false, false, true, true, true, false)), (String ((Ascii (true, false,
    false, true, false, true, true, false)), (String ((Ascii (true, true,
    true, true, false, true, true, false)), (String ((Ascii (false, true,
    true, true, false, true, true, false)), (String ((Ascii (true, true,
    true, true, true, false, true, false)), (String ((Ascii (true, true,
    false, false, true, false, true, false)), (String ((Ascii (true, false,
    true, false, false, true, true, false)), (String ((Ascii (true, true,
    false, false, true, true, true, false)), (String ((Ascii (true, true,
    false, false, true, true, true, false)), (String ((Ascii (true, false,
    false, true, false, true, true, false)), (String ((Ascii (true, true,
    true, true, false, true, true, false)), (String ((Ascii (false, true,
    true, true, false, true, true, false)), (String ((Ascii (false, true,
    true, false, false, false, true, false)), (String ((Ascii (true, true,
    true, true, false, true, true, false)), (String ((Ascii (false, true,
    false, false, true, true, true, false)), (String ((Ascii (true, false,
    false, false, false, false, true, false)), (String ((Ascii (true, true,
    false, false, false, true, true, false)), (String ((Ascii (true, true,
    false, false, false, true, true, false)), (String ((Ascii (true, true,
    true, true, false, true, true, false)), (String ((Ascii (true, false,
    true, false, true, true, true, false)), (String ((Ascii (false, true,
    true, true, false, true, true, false)), (String ((Ascii (false, false,
    true, false, true, true, true, false)), (String ((Ascii (true, true,
    false, true, false, false, true, false)), (String ((Ascii (true, false,
    true, false, false, true, true, false)), (String ((Ascii (true, false,
    false, true, true, true, true, false)), (String ((Ascii (false, false,
    false, false, true, false, true, false)), (String ((Ascii (false, true,
    false, false, true, true, true, false)), (String ((Ascii (true, false,
    true, false, false, true, true, false)), (String ((Ascii (false, true,
    true, false, false, true, true, false)), (String ((Ascii (true, false,
    false, true, false, true, true, false)), (String ((Ascii (false, false,
    false, true, true, true, true, false)),
    EmptyString)))))))))))))))))))))))))))))))))))))))))))))))))))))))))))))))))))),
    session_SessionForAccountKeyPrefix) :: (((String ((Ascii (true, true,
    false, false, true, true, true, false)), (String ((Ascii (true, false,
    true, false, false, true, true, false)), (String ((Ascii (true, true,
    false, false, true, true, true, false)), (String ((Ascii (true, true,
    false, false, true, true, true, false)), (String ((Ascii (true, false,
    false, true, false, true, true, false)), (String ((Ascii (true, true,
    true, true, false, true, true, false)), (String ((Ascii (false, true,
    true, true, false, true, true, false)), (String ((Ascii (true, true,
    true, true, true, false, true, false)), (String ((Ascii (true, true,
    false, false, true, false, true, false)), (String ((Ascii (true, false,
    true, false, false, true, true, false)), (String ((Ascii (true, true,
    false, false, true, true, true, false)), (String ((Ascii (true, true,
    false, false, true, true, true, false)), (String ((Ascii (true, false,
    false, true, false, true, true, false)), (String ((Ascii (true, true,
    true, true, false, true, true, false)), (String ((Ascii (false, true,
    true, true, false, true, true, false)), (String ((Ascii (false, true,
    true, false, false, false, true, false)), (String ((Ascii (true, true,
    true, true, false, true, true, false)), (String ((Ascii (false, true,
    false, false, true, true, true, false)), (String ((Ascii (false, true,
    true, true, false, false, true, false)), (String ((Ascii (true, true,
    true, true, false, true, true, false)), (String ((Ascii (false, false,
    true, false, false, true, true, false)), (String ((Ascii (true, false,
    true, false, false, true, true, false)), (String ((Ascii (true, true,
    false, true, false, false, true, false)), (String ((Ascii (true, false,
    true, false, false, true, true, false)), (String ((Ascii (true, false,
    false, true, true, true, true, false)), (String ((Ascii (false, false,
    false, false, true, false, true, false)), (String ((Ascii (false, true,
    false, false, true, true, true, false)), (String ((Ascii (true, false,
    true, false, false, true, true, false)), (String ((Ascii (false, true,
    true, false, false, true, true, false)), (String ((Ascii (true, false,
    false, true, false, true, true, false)), (String ((Ascii (false, false,
    false, true, true, true, true, false)),
    EmptyString)))))))))))))))))))))))))))))))))))))))))))))))))))))))))))))),
    session_SessionForNodeKeyPrefix) :: (((String ((Ascii (true, true, false,
    false, true, true, true, false)), (String ((Ascii (true, false, true,
    false, false, true, true, false)), (String ((Ascii (true, true, false,
    false, true, true, true, false)), (String ((Ascii (true, true, false,
    false, true, true, true, false)), (String ((Ascii (true, false, false,
    true, false, true, true, false)), (String ((Ascii (true, true, true,
    true, false, true, true, false)), (String ((Ascii (false, true, true,
    true, false, true, true, false)), (String ((Ascii (true, true, true,
    true, true, false, true, false)), (String ((Ascii (true, true, false,
    false, true, false, true, false)), (String ((Ascii (true, false, true,
    false, false, true, true, false)), (String ((Ascii (true, true, false,
    false, true, true, true, false)), (String ((Ascii (true, true, false,
    false, true, true, true, false)), (String ((Ascii (true, false, false,
    true, false, true, true, false)), (String ((Ascii (true, true, true,
    true, false, true, true, false)), (String ((Ascii (false, true, true,
    true, false, true, true, false)), (String ((Ascii (false, true, true,
    false, false, false, true, false)), (String ((Ascii (true, true, true,
    true, false, true, true, false)), (String ((Ascii (false, true, false,
    false, true, true, true, false)), (String ((Ascii (true, true, false,
    false, true, false, true, false)), (String ((Ascii (true, false, true,
    false, true, true, true, false)), (String ((Ascii (false, true, false,
    false, false, true, true, false)), (String ((Ascii (true, true, false,
    false, true, true, true, false)), (String ((Ascii (true, true, false,
    false, false, true, true, false)), (String ((Ascii (false, true, false,
    false, true, true, true, false)), (String ((Ascii (true, false, false,
    true, false, true, true, false)), (String ((Ascii (false, false, false,
    false, true, true, true, false)), (String ((Ascii (false, false, true,
    false, true, true, true, false)), (String ((Ascii (true, false, false,
    true, false, true, true, false)), (String ((Ascii (true, true, true,
    true, false, true, true, false)), (String ((Ascii (false, true, true,
    true, false, true, true, false)), (String ((Ascii (true, true, false,
    true, false, false, true, false)), (String ((Ascii (true, false, true,
    false, false, true, true, false)), (String ((Ascii (true, false, false,
    true, true, true, true, false)), (String ((Ascii (false, false, false,
    false, true, false, true, false)), (String ((Ascii (false, true, false,
    false, true, true, true, false)), (String ((Ascii (true, false, true,
    false, false, true, true, false)), (String ((Ascii (false, true, true,
    false, false, true, true, false)), (String ((Ascii (true, false, false,
    true, false, true, true, false)), (String ((Ascii (false, false, false,
    true, true, true, true, false)),
    EmptyString)))))))))))))))))))))))))))))))))))))))))))))))))))))))))))))))))))))))))))))),
    session_SessionForSubscriptionKeyPrefix) :: (((String ((Ascii (true,
    true, false, false, true, true, true, false)), (String ((Ascii (true,
    false, true, false, false, true, true, false)), (String ((Ascii (true,
    true, false, false, true, true, true, false)), (String ((Ascii (true,
    true, false, false, true, true, true, false)), (String ((Ascii (true,
    false, false, true, false, true, true, false)), (String ((Ascii (true,
    true, true, true, false, true, true, false)), (String ((Ascii (false,
    true, true, true, false, true, true, false)), (String ((Ascii (true,
    true, true, true, true, false, true, false)), (String ((Ascii (true,
    true, false, false, true, false, true, false)), (String ((Ascii (true,
    false, true, false, false, true, true, false)), (String ((Ascii (true,
    true, false, false, true, true, true, false)), (String ((Ascii (true,
    true, false, false, true, true, true, false)), (String ((Ascii (true,
    false, false, true, false, true, true, false)), (String ((Ascii (true,
    true, true, true, false, true, true, false)), (String ((Ascii (false,
    true, true, true, false, true, true, false)), (String ((Ascii (false,
    true, true, false, false, false, true, false)), (String ((Ascii (true,
    true, true, true, false, true, true, false)), (String ((Ascii (false,
    true, false, false, true, true, true, false)), (String ((Ascii (true,
    false, false, false, false, false, true, false)), (String ((Ascii (false,
    false, true, true, false, true, true, false)), (String ((Ascii (false,
    false, true, true, false, true, true, false)), (String ((Ascii (true,
    true, true, true, false, true, true, false)), (String ((Ascii (true,
    true, false, false, false, true, true, false)), (String ((Ascii (true,
    false, false, false, false, true, true, false)), (String ((Ascii (false,
    false, true, false, true, true, true, false)), (String ((Ascii (true,
    false, false, true, false, true, true, false)), (String ((Ascii (true,
    true, true, true, false, true, true, false)), (String ((Ascii (false,
    true, true, true, false, true, true, false)), (String ((Ascii (true,
    true, false, true, false, false, true, false)), (String ((Ascii (true,
    false, true, false, false, true, true, false)), (String ((Ascii (true,
    false, false, true, true, true, true, false)), (String ((Ascii (false,
    false, false, false, true, false, true, false)), (String ((Ascii (false,
    true, false, false, true, true, true, false)), (String ((Ascii (true,
    false, true, false, false, true, true, false)), (String ((Ascii (false,
    true, true, false, false, true, true, false)), (String ((Ascii (true,
    false, false, true, false, true, true, false)), (String ((Ascii (false,
    false, false, true, true, true, true, false)),
    EmptyString)))))))))))))))))))))))))))))))))))))))))))))))))))))))))))))))))))))))))),
    session_SessionForAllocationKeyPrefix) :: (((String ((Ascii (true, true,
    false, false, true, true, true, false)), (String ((Ascii (true, false,
    true, false, true, true, true, false)), (String ((Ascii (false, true,
    false, false, false, true, true, false)), (String ((Ascii (true, true,
    false, false, true, true, true, false)), (String ((Ascii (true, true,
    false, false, false, true, true, false)), (String ((Ascii (false, true,
    false, false, true, true, true, false)), (String ((Ascii (true, false,
    false, true, false, true, true, false)), (String ((Ascii (false, false,
    false, false, true, true, true, false)), (String ((Ascii (false, false,
    true, false, true, true, true, false)), (String ((Ascii (true, false,
    false, true, false, true, true, false)), (String ((Ascii (true, true,
    true, true, false, true, true, false)), (String ((Ascii (false, true,
    true, true, false, true, true, false)), (String ((Ascii (true, true,
    true, true, true, false, true, false)), (String ((Ascii (true, true,
    false, false, false, false, true, false)), (String ((Ascii (true, true,
    true, true, false, true, true, false)), (String ((Ascii (true, false,
    true, false, true, true, true, false)), (String ((Ascii (false, true,
    true, true, false, true, true, false)), (String ((Ascii (false, false,
    true, false, true, true, true, false)), (String ((Ascii (true, true,
    false, true, false, false, true, false)), (String ((Ascii (true, false,
    true, false, false, true, true, false)), (String ((Ascii (true, false,
    false, true, true, true, true, false)),
    EmptyString)))))))))))))))))))))))))))))))))))))))))),
    subscription_CountKey) :: (((String ((Ascii (true, true, false, false,
    true, true, true, false)), (String ((Ascii (true, false, true, false,
    true, true, true, false)), (String ((Ascii (false, true, false, false,
    false, true, true, false)), (String ((Ascii (true, true, false, false,
    true, true, true, false)), (String ((Ascii (true, true, false, false,
    false, true, true, false)), (String ((Ascii (false, true, false, false,
    true, true, true, false)), (String ((Ascii (true, false, false, true,
    false, true, true, false)), (String ((Ascii (false, false, false, false,
    true, true, true, false)), (String ((Ascii (false, false, true, false,
    true, true, true, false)), (String ((Ascii (true, false, false, true,
    false, true, true, false)), (String ((Ascii (true, true, true, true,
    false, true, true, false)), (String ((Ascii (false, true, true, true,
    false, true, true, false)), (String ((Ascii (true, true, true, true,
    true, false, true, false)), (String ((Ascii (true, true, false, false,
    true, false, true, false)), (String ((Ascii (true, false, true, false,
    true, true, true, false)), (String ((Ascii (false, true, false, false,
    false, true, true, false)), (String ((Ascii (true, true, false, false,
    true, true, true, false)), (String ((Ascii (true, true, false, false,
    false, true, true, false)), (String ((Ascii (false, true, false, false,
    true, true, true, false)), (String ((Ascii (true, false, false, true,
    false, true, true, false)), (String ((Ascii (false, false, false, false,
    true, true, true, false)), (String ((Ascii (false, false, true, false,
    true, true, true, false)), (String ((Ascii (true, false, false, true,
    false, true, true, false)), (String ((Ascii (true, true, true, true,
    false, true, true, false)), (String ((Ascii (false, true, true, true,
    false, true, true, false)), (String ((Ascii (true, true, false, true,
    false, false, true, false)), (String ((Ascii (true, false, true, false,
    false, true, true, false)), (String ((Ascii (true, false, false, true,
    true, true, true, false)), (String ((Ascii (false, false, false, false,
    true, false, true, false)), (String ((Ascii (false, true, false, false,
    true, true, true, false)), (String ((Ascii (true, false, true, false,
    false, true, true, false)), (String ((Ascii (false, true, true, false,
    false, true, true, false)), (String ((Ascii (true, false, false, true,
    false, true, true, false)), (String ((Ascii (false, false, false, true,
    true, true, true, false)),
    EmptyString)))))))))))))))))))))))))))))))))))))))))))))))))))))))))))))))))))),
    subscription_SubscriptionKeyPrefix) :: (((String ((Ascii (true, true,
    false, false, true, true, true, false)), (String ((Ascii (true, false,
    true, false, true, true, true, false)), (String ((Ascii (false, true,
    false, false, false, true, true, false)), (String ((Ascii (true, true,
    false, false, true, true, true, false)), (String ((Ascii (true, true,
    false, false, false, true, true, false)), (String ((Ascii (false, true,
    false, false, true, true, true, false)), (String ((Ascii (true, false,
    false, true, false, true, true, false)), (String ((Ascii (false, false,
    false, false, true, true, true, false)), (String ((Ascii (false, false,
    true, false, true, true, true, false)), (String ((Ascii (true, false,
    false, true, false, true, true, false)), (String ((Ascii (true, true,
    true, true, false, true, true, false)), (String ((Ascii (false, true,
    true, true, false, true, true, false)), (String ((Ascii (true, true,
    true, true, true, false, true, false)), (String ((Ascii (true, true,
    false, false, true, false, true, false)), (String ((Ascii (true, false,
    true, false, true, true, true, false)), (String ((Ascii (false, true,
    false, false, false, true, true, false)), (String ((Ascii (true, true,
    false, false, true, true, true, false)), (String ((Ascii (true, true,
    false, false, false, true, true, false)), (String ((Ascii (false, true,
    false, false, true, true, true, false)), (String ((Ascii (true, false,
    false, true, false, true, true, false)), (String ((Ascii (false, false,
    false, false, true, true, true, false)), (String ((Ascii (false, false,
    true, false, true, true, true, false)), (String ((Ascii (true, false,
    false, true, false, true, true, false)), (String ((Ascii (true, true,
    true, true, false, true, true, false)), (String ((Ascii (false, true,
    true, true, false, true, true, false)), (String ((Ascii (false, true,
    true, false, false, false, true, false)), (String ((Ascii (true, true,
    true, true, false, true, true, false)), (String ((Ascii (false, true,
    false, false, true, true, true, false)), (String ((Ascii (true, false,
    false, true, false, false, true, false)), (String ((Ascii (false, true,
    true, true, false, true, true, false)), (String ((Ascii (true, false,
    false, false, false, true, true, false)), (String ((Ascii (true, true,
    false, false, false, true, true, false)), (String ((Ascii (false, false,
    true, false, true, true, true, false)), (String ((Ascii (true, false,
    false, true, false, true, true, false)), (String ((Ascii (false, true,
    true, false, true, true, true, false)), (String ((Ascii (true, false,
    true, false, false, true, true, false)), (String ((Ascii (true, false,
    false, false, false, false, true, false)), (String ((Ascii (false, false,
    true, false, true, true, true, false)), (String ((Ascii (true, true,
    false, true, false, false, true, false)), (String ((Ascii (true, false,
    true, false, false, true, true, false)), (String ((Ascii (true, false,
    false, true, true, true, true, false)), (String ((Ascii (false, false,
    false, false, true, false, true, false)), (String ((Ascii (false, true,
    false, false, true, true, true, false)), (String ((Ascii (true, false,
    true, false, false, true, true, false)), (String ((Ascii (false, true,
    true, false, false, true, true, false)), (String ((Ascii (true, false,
    false, true, false, true, true, false)), (String ((Ascii (false, false,
    false, true, true, true, true, false)),
    EmptyString)))))))))))))))))))))))))))))))))))))))))))))))))))))))))))))))))))))))))))))))))))))))))))))),
    subscription_SubscriptionForInactiveAtKeyPrefix) :: (((String ((Ascii
    (true, true, false, false, true, true, true, false)), (String ((Ascii
    (true, false, true, false, true, true, true, false)), (String ((Ascii
    (false, true, false, false, false, true, true, false)), (String ((Ascii
    (true, true, false, false, true, true, true, false)), (String ((Ascii
    (true, true, false, false, false, true, true, false)), (String ((Ascii
    (false, true, false, false, true, true, true, false)), (String ((Ascii
    (true, false, false, true, false, true, true, false)), (String ((Ascii
    (false, false, false, false, true, true, true, false)), (String ((Ascii
    (false, false, true, false, true, true, true, false)), (String ((Ascii
    (true, false, false, true, false, true, true, false)), (String ((Ascii
    (true, true, true, true, false, true, true, false)), (String ((Ascii
    (false, true, true, true, false, true, true, false)), (String ((Ascii
    (true, true, true, true, true, false, true, false)), (String ((Ascii
    (true, true, false, false, true, false, true, false)), (String ((Ascii
    (true, false, true, false, true, true, true, false)), (String ((Ascii
    (false, true, false, false, false, true, true, false)), (String ((Ascii
    (true, true, false, false, true, true, true, false)), (String ((Ascii
    (true, true, false, false, false, true, true, false)), (String ((Ascii
    (false, true, false, false, true, true, true, false)), (String ((Ascii
    (true, false, false, true, false, true, true, false)), (String ((Ascii
    (false, false, false, false, true, true, true, false)), (String ((Ascii
    (false, false, true, false, true, true, true, false)), (String ((Ascii
    (true, false, false, true, false, true, true, false)), (String ((Ascii
    (true, true, true, true, false, true, true, false)), (String ((Ascii
    (false, true, true, true, false, true, true, false)), (String ((Ascii
    (false, true, true, false, false, false, true, false)), (String ((Ascii
    (true, true, true, true, false, true, true, false)), (String ((Ascii
    (false, true, false, false, true, true, true, false)), (String ((Ascii
    (true, false, false, false, false, false, true, false)), (String ((Ascii
    (true, true, false, false, false, true, true, false)), (String ((Ascii
    (true, true, false, false, false, true, true, false)), (String ((Ascii
    (true, true, true, true, false, true, true, false)), (String ((Ascii
    (true, false, true, false, true, true, true, false)), (String ((Ascii
    (false, true, true, true, false, true, true, false)), (String ((Ascii
    (false, false, true, false, true, true, true, false)), (String ((Ascii
    (true, true, false, true, false, false, true, false)), (String ((Ascii
    (true, false, true, false, false, true, true, false)), (String ((Ascii
    (true, false, false, true, true, true, true, false)), (String ((Ascii
    (false, false, false, false, true, false, true, false)), (String ((Ascii
    (false, true, false, false, true, true, true, false)), (String ((Ascii
    (true, false, true, false, false, true, true, false)), (String ((Ascii
    (false, true, true, false, false, true, true, false)), (String ((Ascii
    (true, false, false, true, false, true, true, false)), (String ((Ascii
    (false, false, false, true, true, true, true, false)),
    EmptyString)))))))))))))))))))))))))))))))))))))))))))))))))))))))))))))))))))))))))))))))))))))))),
    subscription_SubscriptionForAccountKeyPrefix) :: (((String ((Ascii (true,
    true, false, false, true, true, true, false)), (String ((Ascii (true,
    false, true, false, true, true, true, false)), (String ((Ascii (false,
    true, false, false, false, true, true, false)), (String ((Ascii (true,
    true, false, false, true, true, true, false)), (String ((Ascii (true,
    true, false, false, false, true, true, false)), (String ((Ascii (false,
    true, false, false, true, true, true, false)), (String ((Ascii (true,
    false, false, true, false, true, true, false)), (String ((Ascii (false,
    false, false, false, true, true, true, false)), (String ((Ascii (false,
    false, true, false, true, true, true, false)), (String ((Ascii (true,
    false, false, true, false, true, true, false)), (String ((Ascii (true,
    true, true, true, false, true, true, false)), (String ((Ascii (false,
    true, true, true, false, true, true, false)), (String ((Ascii (true,
    true, true, true, true, false, true, false)), (String ((Ascii (true,
    true, false, false, true, false, true, false)), (String ((Ascii (true,
    false, true, false, true, true, true, false)), (String ((Ascii (false,
    true, false, false, false, true, true, false)), (String ((Ascii (true,
    true, false, false, true, true, true, false)), (String ((Ascii (true,
    true, false, false, false, true, true, false)), (String ((Ascii (false,
    true, false, false, true, true, true, false)), (String ((Ascii (true,
    false, false, true, false, true, true, false)), (String ((Ascii (false,
    false, false, false, true, true, true, false)), (String ((Ascii (false,
    false, true, false, true, true, true, false)), (String ((Ascii (true,
    false, false, true, false, true, true, false)), (String ((Ascii (true,
    true, true, true, false, true, true, false)), (String ((Ascii (false,
    true, true, true, false, true, true, false)), (String ((Ascii (false,
    true, true, false, false, false, true, false)), (String ((Ascii (true,
    true, true, true, false, true, true, false)), (String ((Ascii (false,
    true, false, false, true, true, true, false)), (String ((Ascii (false,
    true, true, true, false, false, true, false)), (String ((Ascii (true,
    true, true, true, false, true, true, false)), (String ((Ascii (false,
    false, true, false, false, true, true, false)), (String ((Ascii (true,
    false, true, false, false, true, true, false)), (String ((Ascii (true,
    true, false, true, false, false, true, false)), (String ((Ascii (true,
    false, true, false, false, true, true, false)), (String ((Ascii (true,
    false, false, true, true, true, true, false)), (String ((Ascii (false,
    false, false, false, true, false, true, false)), (String ((Ascii (false,
    true, false, false, true, true, true, false)), (String ((Ascii (true,
    false, true, false, false, true, true, false)), (String ((Ascii (false,
    true, true, false, false, true, true, false)), (String ((Ascii (true,
    false, false, true, false, true, true, false)), (String ((Ascii (false,
    false, false, true, true, true, true, false)),
    EmptyString)))))))))))))))))))))))))))))))))))))))))))))))))))))))))))))))))))))))))))))))))),
    subscription_SubscriptionForNodeKeyPrefix) :: (((String ((Ascii (true,
    true, false, false, true, true, true, false)), (String ((Ascii (true,
    false, true, false, true, true, true, false)), (String ((Ascii (false,
    true, false, false, false, true, true, false)), (String ((Ascii (true,
    true, false, false, true, true, true, false)), (String ((Ascii (true,
    true, false, false, false, true, true, false)), (String ((Ascii (false,
    true, false, false, true, true, true, false)), (String ((Ascii (true,
    false, false, true, false, true, true, false)), (String ((Ascii (false,
    false, false, false, true, true, true, false)), (String ((Ascii (false,
    false, true, false, true, true, true, false)), (String ((Ascii (true,
    false, false, true, false, true, true, false)), (String ((Ascii (true,
    true, true, true, false, true, true, false)), (String ((Ascii (false,
    true, true, true, false, true, true, false)), (String ((Ascii (true,
    true, true, true, true, false, true, false)), (String ((Ascii (true,
    true, false, false, true, false, true, false)), (String ((Ascii (true,
    false, true, false, true, true, true, false)), (String ((Ascii (false,
    true, false, false, false, true, true, false)), (String ((Ascii (true,
    true, false, false, true, true, true, false)), (String ((Ascii (true,
    true, false, false, false, true, true, false)), (String ((Ascii (false,
    true, false, false, true, true, true, false)), (String ((Ascii (true,
    false, false, true, false, true, true, false)), (String ((Ascii (false,
    false, false, false, true, true, true, false)), (String ((Ascii (false,
    false, true, false, true, true, true, false)), (String ((Ascii (true,
    false, false, true, false, true, true, false)), (String ((Ascii (true,
    true, true, true, false, true, true, false)), (String ((Ascii (false,
    true, true, true, false, true, true, false)), (String ((Ascii (false,
    true, true, false, false, false, true, false)), (String ((Ascii (true,
    true, true, true, false, true, true, false)), (String ((Ascii (false,
    true, false, false, true, true, true, false)), (String ((Ascii (false,
    false, false, false, true, false, true, false)), (String ((Ascii (false,
    false, true, true, false, true, true, false)), (String ((Ascii (true,
    false, false, false, false, true, true, false)), (String ((Ascii (false,
    true, true, true, false, true, true, false)), (String ((Ascii (true,
    true, false, true, false, false, true, false)), (String ((Ascii (true,
    false, true, false, false, true, true, false)), (String ((Ascii (true,
    false, false, true, true, true, true, false)), (String ((Ascii (false,
    false, false, false, true, false, true, false)), (String ((Ascii (false,
    true, false, false, true, true, true, false)), (String ((Ascii (true,
    false, true, false, false, true, true, false)), (String ((Ascii (false,
    true, true, false, false, true, true, false)), (String ((Ascii (true,
    false, false, true, false, true, true, false)), (String ((Ascii (false,
    false, false, true, true, true, true, false)),
    EmptyString)))))))))))))))))))))))))))))))))))))))))))))))))))))))))))))))))))))))))))))))))),
    subscription_SubscriptionForPlanKeyPrefix) :: (((String ((Ascii (true,
    true, false, false, true, true, true, false)), (String ((Ascii (true,
    false, true, false, true, true, true, false)), (String ((Ascii (false,
    true, false, false, false, true, true, false)), (String ((Ascii (true,
    true, false, false, true, true, true, false)), (String ((Ascii (true,
    true, false, false, false, true, true, false)), (String ((Ascii (false,
    true, false, false, true, true, true, false)), (String ((Ascii (true,
    false, false, true, false, true, true, false)), (String ((Ascii (false,
    false, false, false, true, true, true, false)), (String ((Ascii (false,
    false, true, false, true, true, true, false)), (String ((Ascii (true,
    false, false, true, false, true, true, false)), (String ((Ascii (true,
    true, true, true, false, true, true, false)), (String ((Ascii (false,
    true, true, true, false, true, true, false)), (String ((Ascii (true,
    true, true, true, true, false, true, false)), (String ((Ascii (true,
    false, false, false, false, false, true, false)), (String ((Ascii (false,
    false, true, true, false, true, true, false)), (String ((Ascii (false,
    false, true, true, false, true, true, false)), (String ((Ascii (true,
    true, true, true, false, true, true, false)), (String ((Ascii (true,
    true, false, false, false, true, true, false)), (String ((Ascii (true,
    false, false, false, false, true, true, false)), (String ((Ascii (false,
    false, true, false, true, true, true, false)), (String ((Ascii (true,
    false, false, true, false, true, true, false)), (String ((Ascii (true,
    true, true, true, false, true, true, false)), (String ((Ascii (false,
    true, true, true, false, true, true, false)), (String ((Ascii (true,
    true, false, true, false, false, true, false)), (String ((Ascii (true,
    false, true, false, false, true, true, false)), (String ((Ascii (true,
    false, false, true, true, true, true, false)), (String ((Ascii (false,
    false, false, false, true, false, true, false)), (String ((Ascii (false,
    true, false, false, true, true, true, false)), (String ((Ascii (true,
    false, true, false, false, true, true, false)), (String ((Ascii (false,
    true, true, false, false, true, true, false)), (String ((Ascii (true,
    false, false, true, false, true, true, false)), (String ((Ascii (false,
    false, false, true, true, true, true, false)),
    EmptyString)))))))))))))))))))))))))))))))))))))))))))))))))))))))))))))))),
    subscription_AllocationKeyPrefix) :: (((String ((Ascii (true, true,
    false, false, true, true, true, false)), (String ((Ascii (true, false,
    true, false, true, true, true, false)), (String ((Ascii (false, true,
    false, false, false, true, true, false)), (String ((Ascii (true, true,
    false, false, true, true, true, false)), (String ((Ascii (true, true,
    false, false, false, true, true, false)), (String ((Ascii (false, true,
    false, false, true, true, true, false)), (String ((Ascii (true, false,
    false, true, false, true, true, false)), (String ((Ascii (false, false,
    false, false, true, true, true, false)), (String ((Ascii (false, false,
    true, false, true, true, true, false)), (String ((Ascii (true, false,
    false, true, false, true, true, false)), (String ((Ascii (true, true,
    true, true, false, true, true, false)), (String ((Ascii (false, true,
    true, true, false, true, true, false)), (String ((Ascii (true, true,
    true, true, true, false, true, false)), (String ((Ascii (false, false,
    false, false, true, false, true, false)), (String ((Ascii (true, false,
    false, false, false, true, true, false)), (String ((Ascii (true, false,
    false, true, true, true, true, false)), (String ((Ascii (true, true,
    true, true, false, true, true, false)), (String ((Ascii (true, false,
    true, false, true, true, true, false)), (String ((Ascii (false, false,
    true, false, true, true, true, false)), (String ((Ascii (true, true,
    false, true, false, false, true, false)), (String ((Ascii (true, false,
    true, false, false, true, true, false)), (String ((Ascii (true, false,
    false, true, true, true, true, false)), (String ((Ascii (false, false,
    false, false, true, false, true, false)), (String ((Ascii (false, true,
    false, false, true, true, true, false)), (String ((Ascii (true, false,
    true, false, false, true, true, false)), (String ((Ascii (false, true,
    true, false, false, true, true, false)), (String ((Ascii (true, false,
    false, true, false, true, true, false)), (String ((Ascii (false, false,
    false, true, true, true, true, false)),
    EmptyString)))))))))))))))))))))))))))))))))))))))))))))))))))))))),
    subscription_PayoutKeyPrefix) :: (((String ((Ascii (true, true, false,
    false, true, true, true, false)), (String ((Ascii (true, false, true,
    false, true, true, true, false)), (String ((Ascii (false, true, false,
    false, false, true, true, false)), (String ((Ascii (true, true, false,
    false, true, true, true, false)), (String ((Ascii (true, true, false,
    false, false, true, true, false)), (String ((Ascii (false, true, false,
    false, true, true, true, false)), (String ((Ascii (true, false, false,
    true, false, true, true, false)), (String ((Ascii (false, false, false,
    false, true, true, true, false)), (String ((Ascii (false, false, true,
    false, true, true, true, false)), (String ((Ascii (true, false, false,
    true, false, true, true, false)), (String ((Ascii (true, true, true,
    true, false, true, true, false)), (String ((Ascii (false, true, true,
    true, false, true, true, false)), (String ((Ascii (true, true, true,
    true, true, false, true, false)), (String ((Ascii (false, false, false,
    false, true, false, true, false)), (String ((Ascii (true, false, false,
    false, false, true, true, false)), (String ((Ascii (true, false, false,
    true, true, true, true, false)), (String ((Ascii (true, true, true, true,
    false, true, true, false)), (String ((Ascii (true, false, true, false,
    true, true, true, false)), (String ((Ascii (false, false, true, false,
    true, true, true, false)), (String ((Ascii (false, true, true, false,
    false, false, true, false)), (String ((Ascii (true, true, true, true,
    false, true, true, false)), (String ((Ascii (false, true, false, false,
    true, true, true, false)), (String ((Ascii (false, true, true, true,
    false, false, true, false)), (String ((Ascii (true, false, true, false,
    false, true, true, false)), (String ((Ascii (false, false, false, true,
    true, true, true, false)), (String ((Ascii (false, false, true, false,
    true, true, true, false)), (String ((Ascii (true, false, false, false,
    false, false, true, false)), (String ((Ascii (false, false, true, false,
    true, true, true, false)), (String ((Ascii (true, true, false, true,
    false, false, true, false)), (String ((Ascii (true, false, true, false,
    false, true, true, false)), (String ((Ascii (true, false, false, true,
    true, true, true, false)), (String ((Ascii (false, false, false, false,
    true, false, true, false)), (String ((Ascii (false, true, false, false,
    true, true, true, false)), (String ((Ascii (true, false, true, false,
    false, true, true, false)), (String ((Ascii (false, true, true, false,
    false, true, true, false)), (String ((Ascii (true, false, false, true,
    false, true, true, false)), (String ((Ascii (false, false, false, true,
    true, true, true, false)),
    EmptyString)))))))))))))))))))))))))))))))))))))))))))))))))))))))))))))))))))))))))),
    subscription_PayoutForNextAtKeyPrefix) :: (((String ((Ascii (true, true,
    false, false, true, true, true, false)), (String ((Ascii (true, false,
    true, false, true, true, true, false)), (String ((Ascii (false, true,
    false, false, false, true, true, false)), (String ((Ascii (true, true,
    false, false, true, true, true, false)), (String ((Ascii (true, true,
    false, false, false, true, true, false)), (String ((Ascii (false, true,
    false, false, true, true, true, false)), (String ((Ascii (true, false,
    false, true, false, true, true, false)), (String ((Ascii (false, false,
    false, false, true, true, true, false)), (String ((Ascii (false, false,
    true, false, true, true, true, false)), (String ((Ascii (true, false,
    false, true, false, true, true, false)), (String ((Ascii (true, true,
    true, true, false, true, true, false)), (String ((Ascii (false, true,
    true, true, false, true, true, false)), (String ((Ascii (true, true,
    true, true, true, false, true, false)), (String ((Ascii (false, false,
    false, false, true, false, true, false)), (String ((Ascii (true, false,
    false, false, false, true, true, false)), (String ((Ascii (true, false,
    false, true, true, true, true, false)), (String ((Ascii (true, true,
    true, true, false, true, true, false)), (String ((Ascii (true, false,
    true, false, true, true, true, false)), (String ((Ascii (false, false,
    true, false, true, true, true, false)), (String ((Ascii (false, true,
    true, false, false, false, true, false)), (String ((Ascii (true, true,
    true, true, false, true, true, false)), (String ((Ascii (false, true,
    false, false, true, true, true, false)), (String ((Ascii (true, false,
    false, false, false, false, true, false)), (String ((Ascii (true, true,
    false, false, false, true, true, false)), (String ((Ascii (true, true,
    false, false, false, true, true, false)), (String ((Ascii (true, true,
    true, true, false, true, true, false)), (String ((Ascii (true, false,
    true, false, true, true, true, false)), (String ((Ascii (false, true,
    true, true, false, true, true, false)), (String ((Ascii (false, false,
    true, false, true, true, true, false)), (String ((Ascii (true, true,
    false, true, false, false, true, false)), (String ((Ascii (true, false,
    true, false, false, true, true, false)), (String ((Ascii (true, false,
    false, true, true, true, true, false)), (String ((Ascii (false, false,
    false, false, true, false, true, false)), (String ((Ascii (false, true,
    false, false, true, true, true, false)), (String ((Ascii (true, false,
    true, false, false, true, true, false)), (String ((Ascii (false, true,
    true, false, false, true, true, false)), (String ((Ascii (true, false,
    false, true, false, true, true, false)), (String ((Ascii (false, false,
    false, true, true, true, true, false)),
    EmptyString)))))))))))))))))))))))))))))))))))))))))))))))))))))))))))))))))))))))))))),
    subscription_PayoutForAccountKeyPrefix) :: (((String ((Ascii (true, true,
    false, false, true, true, true, false)), (String ((Ascii (true, false,
    true, false, true, true, true, false)), (String ((Ascii (false, true,
    false, false, false, true, true, false)), (String ((Ascii (true, true,
    false, false, true, true, true, false)), (String ((Ascii (true, true,
    false, false, false, true, true, false)), (String ((Ascii (false, true,
    false, false, true, true, true, false)), (String ((Ascii (true, false,
    false, true, false, true, true, false)), (String ((Ascii (false, false,
    false, false, true, true, true, false)), (String ((Ascii (false, false,
    true, false, true, true, true, false)), (String ((Ascii (true, false,
    false, true, false, true, true, false)), (String ((Ascii (true, true,
    true, true, false, true, true, false)), (String ((Ascii (false, true,
    true, true, false, true, true, false)), (String ((Ascii (true, true,
    true, true, true, false, true, false)), (String ((Ascii (false, false,
    false, false, true, false, true, false)), (String ((Ascii (true, false,
    false, false, false, true, true, false)), (String ((Ascii (true, false,
    false, true, true, true, true, false)), (String ((Ascii (true, true,
    true, true, false, true, true, false)), (String ((Ascii (true, false,
    true, false, true, true, true, false)), (String ((Ascii (false, false,
    true, false, true, true, true, false)), (String ((Ascii (false, true,
    true, false, false, false, true, false)), (String ((Ascii (true, true,
    true, true, false, true, true, false)), (String ((Ascii (false, true,
    false, false, true, true, true, false)), (String ((Ascii (false, true,
    true, true, false, false, true, false)), (String ((Ascii (true, true,
    true, true, false, true, true, false)), (String ((Ascii (false, false,
    true, false, false, true, true, false)), (String ((Ascii (true, false,
    true, false, false, true, true, false)), (String ((Ascii (true, true,
    false, true, false, false, true, false)), (String ((Ascii (true, false,
    true, false, false, true, true, false)), (String ((Ascii (true, false,
    false, true, true, true, true, false)), (String ((Ascii (false, false,
    false, false, true, false, true, false)), (String ((Ascii (false, true,
    false, false, true, true, true, false)), (String ((Ascii (true, false,
    true, false, false, true, true, false)), (String ((Ascii (false, true,
    true, false, false, true, true, false)), (String ((Ascii (true, false,
    false, true, false, true, true, false)), (String ((Ascii (false, false,
    false, true, true, true, true, false)),
    EmptyString)))))))))))))))))))))))))))))))))))))))))))))))))))))))))))))))))))))),
    subscription_PayoutForNodeKeyPrefix) :: (((String ((Ascii (true, true,
    false, false, true, true, true, false)), (String ((Ascii (true, false,
    true, false, true, true, true, false)), (String ((Ascii (false, true,
    false, false, false, true, true, false)), (String ((Ascii (true, true,
    false, false, true, true, true, false)), (String ((Ascii (true, true,
    false, false, false, true, true, false)), (String ((Ascii (false, true,
    false, false, true, true, true, false)), (String ((Ascii (true, false,
    false, true, false, true, true, false)), (String ((Ascii (false, false,
    false, false, true, true, true, false)), (String ((Ascii (false, false,
    true, false, true, true, true, false)), (String ((Ascii (true, false,
    false, true, false, true, true, false)), (String ((Ascii (true, true,
    true, true, false, true, true, false)), (String ((Ascii (false, true,
    true, true, false, true, true, false)), (String ((Ascii (true, true,
    true, true, true, false, true, false)), (String ((Ascii (false, false,
    false, false, true, false, true, false)), (String ((Ascii (true, false,
    false, false, false, true, true, false)), (String ((Ascii (true, false,
    false, true, true, true, true, false)), (String ((Ascii (true, true,
    true, true, false, true, true, false)), (String ((Ascii (true, false,
    true, false, true, true, true, false)), (String ((Ascii (false, false,
    true, false, true, true, true, false)), (String ((Ascii (false, true,
    true, false, false, false, true, false)), (String ((Ascii (true, true,
    true, true, false, true, true, false)), (String ((Ascii (false, true,
    false, false, true, true, true, false)), (String ((Ascii (true, false,
    false, false, false, false, true, false)), (String ((Ascii (true, true,
    false, false, false, true, true, false)), (String ((Ascii (true, true,
    false, false, false, true, true, false)), (String ((Ascii (true, true,
    true, true, false, true, true, false)), (String ((Ascii (true, false,
    true, false, true, true, true, false)), (String ((Ascii (false, true,
    true, true, false, true, true, false)), (String ((Ascii (false, false,
    true, false, true, true, true, false)), (String ((Ascii (false, true,
    false, false, false, false, true, false)), (String ((Ascii (true, false,
    false, true, true, true, true, false)), (String ((Ascii (false, true,
    true, true, false, false, true, false)), (String ((Ascii (true, true,
    true, true, false, true, true, false)), (String ((Ascii (false, false,
    true, false, false, true, true, false)), (String ((Ascii (true, false,
    true, false, false, true, true, false)), (String ((Ascii (true, true,
    false, true, false, false, true, false)), (String ((Ascii (true, false,
    true, false, false, true, true, false)), (String ((Ascii (true, false,
    false, true, true, true, true, false)), (String ((Ascii (false, false,
    false, false, true, false, true, false)), (String ((Ascii (false, true,
    false, false, true, true, true, false)), (String ((Ascii (true, false,
    true, false, false, true, true, false)), (String ((Ascii (false, true,
    true, false, false, true, true, false)), (String ((Ascii (true, false,
    false, true, false, true, true, false)), (String ((Ascii (false, false,
    false, true, true, true, true, false)),
    EmptyString)))))))))))))))))))))))))))))))))))))))))))))))))))))))))))))))))))))))))))))))))))))))),
    subscription_PayoutForAccountByNodeKeyPrefix) :: (((String ((Ascii (true,
    true, false, false, true, true, true, false)), (String ((Ascii (true,
    true, true, false, true, true, true, false)), (String ((Ascii (true,
    false, false, false, false, true, true, false)), (String ((Ascii (false,
    false, false, false, true, true, true, false)), (String ((Ascii (true,
    true, true, true, true, false, true, false)), (String ((Ascii (true,
    true, false, false, true, false, true, false)), (String ((Ascii (true,
    true, true, false, true, true, true, false)), (String ((Ascii (true,
    false, false, false, false, true, true, false)), (String ((Ascii (false,
    false, false, false, true, true, true, false)), (String ((Ascii (true,
    true, false, true, false, false, true, false)), (String ((Ascii (true,
    false, true, false, false, true, true, false)), (String ((Ascii (true,
    false, false, true, true, true, true, false)), (String ((Ascii (false,
    false, false, false, true, false, true, false)), (String ((Ascii (false,
    true, false, false, true, true, true, false)), (String ((Ascii (true,
    false, true, false, false, true, true, false)), (String ((Ascii (false,
    true, true, false, false, true, true, false)), (String ((Ascii (true,
    false, false, true, false, true, true, false)), (String ((Ascii (false,
    false, false, true, true, true, true, false)),
    EmptyString)))))))))))))))))))))))))))))))))))),
    swap_SwapKeyPrefix) :: []))))))))))))))))))))))))))))))))))

(** val gen_ctor_table :
    (string * (bytes -> bytes -> n -> n -> z -> bytes -> bool * bytes)) list **)

let gen_ctor_table =
  ((String ((Ascii (false, false, true, false, false, true, true, false)),
    (String ((Ascii (true, false, true, false, false, true, true, false)),
    (String ((Ascii (false, false, false, false, true, true, true, false)),
    (String ((Ascii (true, true, true, true, false, true, true, false)),
    (String ((Ascii (true, true, false, false, true, true, true, false)),
    (String ((Ascii (true, false, false, true, false, true, true, false)),
    (String ((Ascii (false, false, true, false, true, true, true, false)),
    (String ((Ascii (true, true, true, true, true, false, true, false)),
    (String ((Ascii (false, false, true, false, false, false, true, false)),
    (String ((Ascii (true, false, true, false, false, true, true, false)),
    (String ((Ascii (false, false, false, false, true, true, true, false)),
    (String ((Ascii (true, true, true, true, false, true, true, false)),
    (String ((Ascii (true, true, false, false, true, true, true, false)),
    (String ((Ascii (true, false, false, true, false, true, true, false)),
    (String ((Ascii (false, false, true, false, true, true, true, false)),
    (String ((Ascii (true, true, false, true, false, false, true, false)),
    (String ((Ascii (true, false, true, false, false, true, true, false)),
    (String ((Ascii (true, false, false, true, true, true, true, false)),
    EmptyString)))))))))))))))))))))))))))))))))))), (fun a1 _ _ _ _ _ ->
    ((deposit_DepositKey_ok a1), (deposit_DepositKey a1)))) :: (((String
    ((Ascii (true, false, true, true, false, true, true, false)), (String
    ((Ascii (true, false, false, true, false, true, true, false)), (String
    ((Ascii (false, true, true, true, false, true, true, false)), (String
    ((Ascii (false, false, true, false, true, true, true, false)), (String
    ((Ascii (true, true, true, true, true, false, true, false)), (String
    ((Ascii (true, false, false, true, false, false, true, false)), (String
    ((Ascii (false, true, true, true, false, true, true, false)), (String
    ((Ascii (false, true, true, false, false, true, true, false)), (String
    ((Ascii (false, false, true, true, false, true, true, false)), (String
    ((Ascii (true, false, false, false, false, true, true, false)), (String
    ((Ascii (false, false, true, false, true, true, true, false)), (String
    ((Ascii (true, false, false, true, false, true, true, false)), (String
    ((Ascii (true, true, true, true, false, true, true, false)), (String
    ((Ascii (false, true, true, true, false, true, true, false)), (String
    ((Ascii (true, true, false, true, false, false, true, false)), (String
    ((Ascii (true, false, true, false, false, true, true, false)), (String
    ((Ascii (true, false, false, true, true, true, true, false)),
    EmptyString)))))))))))))))))))))))))))))))))), (fun _ _ _ _ t0 _ ->
    ((mint_InflationKey_ok t0), (mint_InflationKey t0)))) :: (((String
    ((Ascii (false, true, true, true, false, true, true, false)), (String
    ((Ascii (true, true, true, true, false, true, true, false)), (String
    ((Ascii (false, false, true, false, false, true, true, false)), (String
    ((Ascii (true, false, true, false, false, true, true, false)), (String
    ((Ascii (true, true, true, true, true, false, true, false)), (String
    ((Ascii (true, false, false, false, false, false, true, false)), (String
    ((Ascii (true, true, false, false, false, true, true, false)), (String
    ((Ascii (false, false, true, false, true, true, true, false)), (String
    ((Ascii (true, false, false, true, false, true, true, false)), (String
    ((Ascii (false, true, true, false, true, true, true, false)), (String
    ((Ascii (true, false, true, false, false, true, true, false)), (String
    ((Ascii (false, true, true, true, false, false, true, false)), (String
    ((Ascii (true, true, true, true, false, true, true, false)), (String
    ((Ascii (false, false, true, false, false, true, true, false)), (String
    ((Ascii (true, false, true, false, false, true, true, false)), (String
    ((Ascii (true, true, false, true, false, false, true, false)), (String
    ((Ascii (true, false, true, false, false, true, true, false)), (String
    ((Ascii (true, false, false, true, true, true, true, false)),
    EmptyString)))))))))))))))))))))))))))))))))))), (fun a1 _ _ _ _ _ ->
    ((node_ActiveNodeKey_ok a1), (node_ActiveNodeKey a1)))) :: (((String
    ((Ascii (false, true, true, true, false, true, true, false)), (String
    ((Ascii (true, true, true, true, false, true, true, false)), (String
    ((Ascii (false, false, true, false, false, true, true, false)), (String
    ((Ascii (true, false, true, false, false, true, true, false)), (String
    ((Ascii (true, true, true, true, true, false, true, false)), (String
    ((Ascii (true, false, false, true, false, false, true, false)), (String
    ((Ascii (false, true, true, true, false, true, true, false)), (String
    ((Ascii (true, false, false, false, false, true, true, false)), (String
    ((Ascii (true, true, false, false, false, true, true, false)), (String
    ((Ascii (false, false, true, false, true, true, true, false)), (String
    ((Ascii (true, false, false, true, false, true, true, false)), (String
    ((Ascii (false, true, true, false, true, true, true, false)), (String
    ((Ascii (true, false, true, false, false, true, true, false)), (String
    ((Ascii (false, true, true, true, false, false, true, false)), (String
    ((Ascii (true, true, true, true, false, true, true, false)), (String
    ((Ascii (false, false, true, false, false, true, true, false)), (String
    ((Ascii (true, false, true, false, false, true, true, false)), (String
    ((Ascii (true, true, false, true, false, false, true, false)), (String
    ((Ascii (true, false, true, false, false, true, true, false)), (String
    ((Ascii (true, false, false, true, true, true, true, false)),
    EmptyString)))))))))))))))))))))))))))))))))))))))), (fun a1 _ _ _ _ _ ->
    ((node_InactiveNodeKey_ok a1), (node_InactiveNodeKey a1)))) :: (((String
    ((Ascii (false, true, true, true, false, true, true, false)), (String
    ((Ascii (true, true, true, true, false, true, true, false)), (String
    ((Ascii (false, false, true, false, false, true, true, false)), (String
    ((Ascii (true, false, true, false, false, true, true, false)), (String
    ((Ascii (true, true, true, true, true, false, true, false)), (String
    ((Ascii (true, true, true, false, false, false, true, false)), (String
    ((Ascii (true, false, true, false, false, true, true, false)), (String
    ((Ascii (false, false, true, false, true, true, true, false)), (String
    ((Ascii (false, true, true, true, false, false, true, false)), (String
    ((Ascii (true, true, true, true, false, true, true, false)), (String
    ((Ascii (false, false, true, false, false, true, true, false)), (String
    ((Ascii (true, false, true, false, false, true, true, false)), (String
    ((Ascii (false, true, true, false, false, false, true, false)), (String
    ((Ascii (true, true, true, true, false, true, true, false)), (String
    ((Ascii (false, true, false, false, true, true, true, false)), (String
    ((Ascii (false, false, false, false, true, false, true, false)), (String
    ((Ascii (false, false, true, true, false, true, true, false)), (String
    ((Ascii (true, false, false, false, false, true, true, false)), (String
    ((Ascii (false, true, true, true, false, true, true, false)), (String
    ((Ascii (true, true, false, true, false, false, true, false)), (String
    ((Ascii (true, false, true, false, false, true, true, false)), (String
    ((Ascii (true, false, false, true, true, true, true, false)), (String
    ((Ascii (false, false, false, false, true, false, true, false)), (String
    ((Ascii (false, true, false, false, true, true, true, false)), (String
    ((Ascii (true, false, true, false, false, true, true, false)), (String
    ((Ascii (false, true, true, false, false, true, true, false)), (String
    ((Ascii (true, false, false, true, false, true, true, false)), (String
    ((Ascii (false, false, false, true, true, true, true, false)),
    EmptyString)))))))))))))))))))))))))))))))))))))))))))))))))))))))),
    (fun _ _ id1 _ _ _ -> ((node_GetNodeForPlanKeyPrefix_ok id1),
    (node_GetNodeForPlanKeyPrefix id1)))) :: (((String ((Ascii (false, true,
    true, true, false, true, true, false)), (String ((Ascii (true, true,
    true, true, false, true, true, false)), (String ((Ascii (false, false,
    true, false, false, true, true, false)), (String ((Ascii (true, false,
    true, false, false, true, true, false)), (String ((Ascii (true, true,
    true, true, true, false, true, false)), (String ((Ascii (false, true,
    true, true, false, false, true, false)), (String ((Ascii (true, true,
    true, true, false, true, true, false)), (String ((Ascii (false, false,
    true, false, false, true, true, false)), (String ((Ascii (true, false,
    true, false, false, true, true, false)), (String ((Ascii (false, true,
    true, false, false, false, true, false)), (String ((Ascii (true, true,
    true, true, false, true, true, false)), (String ((Ascii (false, true,
    false, false, true, true, true, false)), (String ((Ascii (false, false,
    false, false, true, false, true, false)), (String ((Ascii (false, false,
    true, true, false, true, true, false)), (String ((Ascii (true, false,
    false, false, false, true, true, false)), (String ((Ascii (false, true,
    true, true, false, true, true, false)), (String ((Ascii (true, true,
    false, true, false, false, true, false)), (String ((Ascii (true, false,
    true, false, false, true, true, false)), (String ((Ascii (true, false,
    false, true, true, true, true, false)),
    EmptyString)))))))))))))))))))))))))))))))))))))), (fun a1 _ id1 _ _ _ ->
    ((node_NodeForPlanKey_ok id1 a1),
    (node_NodeForPlanKey id1 a1)))) :: (((String ((Ascii (false, true, true,
    true, false, true, true, false)), (String ((Ascii (true, true, true,
    true, false, true, true, false)), (String ((Ascii (false, false, true,
    false, false, true, true, false)), (String ((Ascii (true, false, true,
    false, false, true, true, false)), (String ((Ascii (true, true, true,
    true, true, false, true, false)), (String ((Ascii (true, true, true,
    false, false, false, true, false)), (String ((Ascii (true, false, true,
    false, false, true, true, false)), (String ((Ascii (false, false, true,
    false, true, true, true, false)), (String ((Ascii (false, true, true,
    true, false, false, true, false)), (String ((Ascii (true, true, true,
    true, false, true, true, false)), (String ((Ascii (false, false, true,
    false, false, true, true, false)), (String ((Ascii (true, false, true,
    false, false, true, true, false)), (String ((Ascii (false, true, true,
    false, false, false, true, false)), (String ((Ascii (true, true, true,
    true, false, true, true, false)), (String ((Ascii (false, true, false,
    false, true, true, true, false)), (String ((Ascii (true, false, false,
    true, false, false, true, false)), (String ((Ascii (false, true, true,
    true, false, true, true, false)), (String ((Ascii (true, false, false,
    false, false, true, true, false)), (String ((Ascii (true, true, false,
    false, false, true, true, false)), (String ((Ascii (false, false, true,
    false, true, true, true, false)), (String ((Ascii (true, false, false,
    true, false, true, true, false)), (String ((Ascii (false, true, true,
    false, true, true, true, false)), (String ((Ascii (true, false, true,
    false, false, true, true, false)), (String ((Ascii (true, false, false,
    false, false, false, true, false)), (String ((Ascii (false, false, true,
    false, true, true, true, false)), (String ((Ascii (true, true, false,
    true, false, false, true, false)), (String ((Ascii (true, false, true,
    false, false, true, true, false)), (String ((Ascii (true, false, false,
    true, true, true, true, false)), (String ((Ascii (false, false, false,
    false, true, false, true, false)), (String ((Ascii (false, true, false,
    false, true, true, true, false)), (String ((Ascii (true, false, true,
    false, false, true, true, false)), (String ((Ascii (false, true, true,
    false, false, true, true, false)), (String ((Ascii (true, false, false,
    true, false, true, true, false)), (String ((Ascii (false, false, false,
    true, true, true, true, false)),
    EmptyString)))))))))))))))))))))))))))))))))))))))))))))))))))))))))))))))))))),
    (fun _ _ _ _ t0 _ -> ((node_GetNodeForInactiveAtKeyPrefix_ok t0),
    (node_GetNodeForInactiveAtKeyPrefix t0)))) :: (((String ((Ascii (false,
    true, true, true, false, true, true, false)), (String ((Ascii (true,
    true, true, true, false, true, true, false)), (String ((Ascii (false,
    false, true, false, false, true, true, false)), (String ((Ascii (true,
    false, true, false, false, true, true, false)), (String ((Ascii (true,
    true, true, true, true, false, true, false)), (String ((Ascii (false,
    true, true, true, false, false, true, false)), (String ((Ascii (true,
    true, true, true, false, true, true, false)), (String ((Ascii (false,
    false, true, false, false, true, true, false)), (String ((Ascii (true,
    false, true, false, false, true, true, false)), (String ((Ascii (false,
    true, true, false, false, false, true, false)), (String ((Ascii (true,
    true, true, true, false, true, true, false)), (String ((Ascii (false,
    true, false, false, true, true, true, false)), (String ((Ascii (true,
    false, false, true, false, false, true, false)), (String ((Ascii (false,
    true, true, true, false, true, true, false)), (String ((Ascii (true,
    false, false, false, false, true, true, false)), (String ((Ascii (true,
    true, false, false, false, true, true, false)), (String ((Ascii (false,
    false, true, false, true, true, true, false)), (String ((Ascii (true,
    false, false, true, false, true, true, false)), (String ((Ascii (false,
    true, true, false, true, true, true, false)), (String ((Ascii (true,
    false, true, false, false, true, true, false)), (String ((Ascii (true,
    false, false, false, false, false, true, false)), (String ((Ascii (false,
    false, true, false, true, true, true, false)), (String ((Ascii (true,
    true, false, true, false, false, true, false)), (String ((Ascii (true,
    false, true, false, false, true, true, false)), (String ((Ascii (true,
    false, false, true, true, true, true, false)),
    EmptyString)))))))))))))))))))))))))))))))))))))))))))))))))),
    (fun a1 _ _ _ t0 _ -> ((node_NodeForInactiveAtKey_ok t0 a1),
    (node_NodeForInactiveAtKey t0 a1)))) :: (((String ((Ascii (false, false,
    false, false, true, true, true, false)), (String ((Ascii (false, false,
    true, true, false, true, true, false)), (String ((Ascii (true, false,
    false, false, false, true, true, false)), (String ((Ascii (false, true,
    true, true, false, true, true, false)), (String ((Ascii (true, true,
    true, true, true, false, true, false)), (String ((Ascii (true, false,
    false, false, false, false, true, false)), (String ((Ascii (true, true,
    false, false, false, true, true, false)), (String ((Ascii (false, false,
    true, false, true, true, true, false)), (String ((Ascii (true, false,
    false, true, false, true, true, false)), (String ((Ascii (false, true,
    true, false, true, true, true, false)), (String ((Ascii (true, false,
    true, false, false, true, true, false)), (String ((Ascii (false, false,
    false, false, true, false, true, false)), (String ((Ascii (false, false,
    true, true, false, true, true, false)), (String ((Ascii (true, false,
    false, false, false, true, true, false)), (String ((Ascii (false, true,
    true, true, false, true, true, false)), (String ((Ascii (true, true,
    false, true, false, false, true, false)), (String ((Ascii (true, false,
    true, false, false, true, true, false)), (String ((Ascii (true, false,
    false, true, true, true, true, false)),
    EmptyString)))))))))))))))))))))))))))))))))))), (fun _ _ id1 _ _ _ ->
    ((plan_ActivePlanKey_ok id1), (plan_ActivePlanKey id1)))) :: (((String
    ((Ascii (false, false, false, false, true, true, true, false)), (String
    ((Ascii (false, false, true, true, false, true, true, false)), (String
    ((Ascii (true, false, false, false, false, true, true, false)), (String
    ((Ascii (false, true, true, true, false, true, true, false)), (String
    ((Ascii (true, true, true, true, true, false, true, false)), (String
    ((Ascii (true, false, false, true, false, false, true, false)), (String
    ((Ascii (false, true, true, true, false, true, true, false)), (String
    ((Ascii (true, false, false, false, false, true, true, false)), (String
    ((Ascii (true, true, false, false, false, true, true, false)), (String
    ((Ascii (false, false, true, false, true, true, true, false)), (String
    ((Ascii (true, false, false, true, false, true, true, false)), (String
    ((Ascii (false, true, true, false, true, true, true, false)), (String
    ((Ascii (true, false, true, false, false, true, true, false)), (String
    ((Ascii (false, false, false, false, true, false, true, false)), (String
    ((Ascii (false, false, true, true, false, true, true, false)), (String
    ((Ascii (true, false, false, false, false, true, true, false)), (String
    ((Ascii (false, true, true, true, false, true, true, false)), (String
    ((Ascii (true, true, false, true, false, false, true, false)), (String
    ((Ascii (true, false, true, false, false, true, true, false)), (String
    ((Ascii (true, false, false, true, true, true, true, false)),
    EmptyString)))))))))))))))))))))))))))))))))))))))),
    (fun _ _ id1 _ _ _ -> ((plan_InactivePlanKey_ok id1),
    (plan_InactivePlanKey id1)))) :: (((String ((Ascii (false, false, false,
    false, true, true, true, false)), (String ((Ascii (false, false, true,
    true, false, true, true, false)), (String ((Ascii (true, false, false,
    false, false, true, true, false)), (String ((Ascii (false, true, true,
    true, false, true, true, false)), (String ((Ascii (true, true, true,
    true, true, false, true, false)), (String ((Ascii (true, true, true,
    false, false, false, true, false)), (String ((Ascii (true, false, true,
    false, false, true, true, false)), (String ((Ascii (false, false, true,
    false, true, true, true, false)), (String ((Ascii (false, false, false,
    false, true, false, true, false)), (String ((Ascii (false, false, true,
    true, false, true, true, false)), (String ((Ascii (true, false, false,
    false, false, true, true, false)), (String ((Ascii (false, true, true,
    true, false, true, true, false)), (String ((Ascii (false, true, true,
    false, false, false, true, false)), (String ((Ascii (true, true, true,
    true, false, true, true, false)), (String ((Ascii (false, true, false,
    false, true, true, true, false)), (String ((Ascii (false, false, false,
    false, true, false, true, false)), (String ((Ascii (false, true, false,
    false, true, true, true, false)), (String ((Ascii (true, true, true,
    true, false, true, true, false)), (String ((Ascii (false, true, true,
    false, true, true, true, false)), (String ((Ascii (true, false, false,
    true, false, true, true, false)), (String ((Ascii (false, false, true,
    false, false, true, true, false)), (String ((Ascii (true, false, true,
    false, false, true, true, false)), (String ((Ascii (false, true, false,
    false, true, true, true, false)), (String ((Ascii (true, true, false,
    true, false, false, true, false)), (String ((Ascii (true, false, true,
    false, false, true, true, false)), (String ((Ascii (true, false, false,
    true, true, true, true, false)), (String ((Ascii (false, false, false,
    false, true, false, true, false)), (String ((Ascii (false, true, false,
    false, true, true, true, false)), (String ((Ascii (true, false, true,
    false, false, true, true, false)), (String ((Ascii (false, true, true,
    false, false, true, true, false)), (String ((Ascii (true, false, false,
    true, false, true, true, false)), (String ((Ascii (false, false, false,
    true, true, true, true, false)),
    EmptyString)))))))))))))))))))))))))))))))))))))))))))))))))))))))))))))))),
    (fun a1 _ _ _ _ _ -> ((plan_GetPlanForProviderKeyPrefix_ok a1),
    (plan_GetPlanForProviderKeyPrefix a1)))) :: (((String ((Ascii (false,
    false, false, false, true, true, true, false)), (String ((Ascii (false,
    false, true, true, false, true, true, false)), (String ((Ascii (true,
    false, false, false, false, true, true, false)), (String ((Ascii (false,
    true, true, true, false, true, true, false)), (String ((Ascii (true,
    true, true, true, true, false, true, false)), (String ((Ascii (false,
    false, false, false, true, false, true, false)), (String ((Ascii (false,
    false, true, true, false, true, true, false)), (String ((Ascii (true,
    false, false, false, false, true, true, false)), (String ((Ascii (false,
    true, true, true, false, true, true, false)), (String ((Ascii (false,
    true, true, false, false, false, true, false)), (String ((Ascii (true,
    true, true, true, false, true, true, false)), (String ((Ascii (false,
    true, false, false, true, true, true, false)), (String ((Ascii (false,
    false, false, false, true, false, true, false)), (String ((Ascii (false,
    true, false, false, true, true, true, false)), (String ((Ascii (true,
    true, true, true, false, true, true, false)), (String ((Ascii (false,
    true, true, false, true, true, true, false)), (String ((Ascii (true,
    false, false, true, false, true, true, false)), (String ((Ascii (false,
    false, true, false, false, true, true, false)), (String ((Ascii (true,
    false, true, false, false, true, true, false)), (String ((Ascii (false,
    true, false, false, true, true, true, false)), (String ((Ascii (true,
    true, false, true, false, false, true, false)), (String ((Ascii (true,
    false, true, false, false, true, true, false)), (String ((Ascii (true,
    false, false, true, true, true, true, false)),
    EmptyString)))))))))))))))))))))))))))))))))))))))))))))),
    (fun a1 _ id1 _ _ _ -> ((plan_PlanForProviderKey_ok a1 id1),
    (plan_PlanForProviderKey a1 id1)))) :: (((String ((Ascii (false, false,
    false, false, true, true, true, false)), (String ((Ascii (false, true,
    false, false, true, true, true, false)), (String ((Ascii (true, true,
    true, true, false, true, true, false)), (String ((Ascii (false, true,
    true, false, true, true, true, false)), (String ((Ascii (true, false,
    false, true, false, true, true, false)), (String ((Ascii (false, false,
    true, false, false, true, true, false)), (String ((Ascii (true, false,
    true, false, false, true, true, false)), (String ((Ascii (false, true,
    false, false, true, true, true, false)), (String ((Ascii (true, true,
    true, true, true, false, true, false)), (String ((Ascii (true, false,
    false, false, false, false, true, false)), (String ((Ascii (true, true,
    false, false, false, true, true, false)), (String ((Ascii (false, false,
    true, false, true, true, true, false)), (String ((Ascii (true, false,
    false, true, false, true, true, false)), (String ((Ascii (false, true,
    true, false, true, true, true, false)), (String ((Ascii (true, false,
    true, false, false, true, true, false)), (String ((Ascii (false, false,
    false, false, true, false, true, false)), (String ((Ascii (false, true,
    false, false, true, true, true, false)), (String ((Ascii (true, true,
    true, true, false, true, true, false)), (String ((Ascii (false, true,
    true, false, true, true, true, false)), (String ((Ascii (true, false,
    false, true, false, true, true, false)), (String ((Ascii (false, false,
    true, false, false, true, true, false)), (String ((Ascii (true, false,
    true, false, false, true, true, false)), (String ((Ascii (false, true,
    false, false, true, true, true, false)), (String ((Ascii (true, true,
    false, true, false, false, true, false)), (String ((Ascii (true, false,
    true, false, false, true, true, false)), (String ((Ascii (true, false,
    false, true, true, true, true, false)),
    EmptyString)))))))))))))))))))))))))))))))))))))))))))))))))))),
    (fun a1 _ _ _ _ _ -> ((provider_ActiveProviderKey_ok a1),
    (provider_ActiveProviderKey a1)))) :: (((String ((Ascii (false, false,
    false, false, true, true, true, false)), (String ((Ascii (false, true,
    false, false, true, true, true, false)), (String ((Ascii (true, true,
    true, true, false, true, true, false)), (String ((Ascii (false, true,
    true, false, true, true, true, false)), (String ((Ascii (true, false,
    false, true, false, true, true, false)), (String ((Ascii (false, false,
    true, false, false, true, true, false)), (String ((Ascii (true, false,
    true, false, false, true, true, false)), (String ((Ascii (false, true,
    false, false, true, true, true, false)), (String ((Ascii (true, true,
    true, true, true, false, true, false)), (String ((Ascii (true, false,
    false, true, false, false, true, false)), (String ((Ascii (false, true,
    true, true, false, true, true, false)), (String ((Ascii (true, false,
    false, false, false, true, true, false)), (String ((Ascii (true, true,
    false, false, false, true, true, false)), (String ((Ascii (false, false,
    true, false, true, true, true, false)), (String ((Ascii (true, false,
    false, true, false, true, true, false)), (String ((Ascii (false, true,
    true, false, true, true, true, false)), (String ((Ascii (true, false,
    true, false, false, true, true, false)), (String ((Ascii (false, false,
    false, false, true, false, true, false)), (String ((Ascii (false, true,
    false, false, true, true, true, false)), (String ((Ascii (true, true,
    true, true, false, true, true, false)), (String ((Ascii (false, true,
    true, false, true, true, true, false)), (String ((Ascii (true, false,
    false, true, false, true, true, false)), (String ((Ascii (false, false,
    true, false, false, true, true, false)), (String ((Ascii (true, false,
    true, false, false, true, true, false)), (String ((Ascii (false, true,
    false, false, true, true, true, false)), (String ((Ascii (true, true,
    false, true, false, false, true, false)), (String ((Ascii (true, false,
    true, false, false, true, true, false)), (String ((Ascii (true, false,
    false, true, true, true, true, false)),
    EmptyString)))))))))))))))))))))))))))))))))))))))))))))))))))))))),
    (fun a1 _ _ _ _ _ -> ((provider_InactiveProviderKey_ok a1),
    (provider_InactiveProviderKey a1)))) :: (((String ((Ascii (true, true,
    false, false, true, true, true, false)), (String ((Ascii (true, false,
    true, false, false, true, true, false)), (String ((Ascii (true, true,
    false, false, true, true, true, false)), (String ((Ascii (true, true,
    false, false, true, true, true, false)), (String ((Ascii (true, false,
    false, true, false, true, true, false)), (String ((Ascii (true, true,
    true, true, false, true, true, false)), (String ((Ascii (false, true,
    true, true, false, true, true, false)), (String ((Ascii (true, true,
    true, true, true, false, true, false)), (String ((Ascii (true, true,
    false, false, true, false, true, false)), (String ((Ascii (true, false,
    true, false, false, true, true, false)), (String ((Ascii (true, true,
    false, false, true, true, true, false)), (String ((Ascii (true, true,
    false, false, true, true, true, false)), (String ((Ascii (true, false,
    false, true, false, true, true, false)), (String ((Ascii (true, true,
    true, true, false, true, true, false)), (String ((Ascii (false, true,
    true, true, false, true, true, false)), (String ((Ascii (true, true,
    false, true, false, false, true, false)), (String ((Ascii (true, false,
    true, false, false, true, true, false)), (String ((Ascii (true, false,
    false, true, true, true, true, false)),
    EmptyString)))))))))))))))))))))))))))))))))))), (fun _ _ id1 _ _ _ ->
    ((session_SessionKey_ok id1), (session_SessionKey id1)))) :: (((String
    ((Ascii (true, true, false, false, true, true, true, false)), (String
    ((Ascii (true, false, true, false, false, true, true, false)), (String
    ((Ascii (true, true, false, false, true, true, true, false)), (String
    ((Ascii (true, true, false, false, true, true, true, false)), (String
    ((Ascii (true, false, false, true, false, true, true, false)), (String
    ((Ascii (true, true, true, true, false, true, true, false)), (String
    ((Ascii (false, true, true, true, false, true, true, false)), (String
    ((Ascii (true, true, true, true, true, false, true, false)), (String
    ((Ascii (true, true, true, false, false, false, true, false)), (String
    ((Ascii (true, false, true, false, false, true, true, false)), (String
    ((Ascii (false, false, true, false, true, true, true, false)), (String
    ((Ascii (true, true, false, false, true, false, true, false)), (String
    ((Ascii (true, false, true, false, false, true, true, false)), (String
    ((Ascii (true, true, false, false, true, true, true, false)), (String
    ((Ascii (true, true, false, false, true, true, true, false)), (String
    ((Ascii (true, false, false, true, false, true, true, false)), (String
    ((Ascii (true, true, true, true, false, true, true, false)), (String
    ((Ascii (false, true, true, true, false, true, true, false)), (String
    ((Ascii (false, true, true, false, false, false, true, false)), (String
    ((Ascii (true, true, true, true, false, true, true, false)), (String
    ((Ascii (false, true, false, false, true, true, true, false)), (String
    ((Ascii (true, false, false, false, false, false, true, false)), (String
    ((Ascii (true, true, false, false, false, true, true, false)), (String
    ((Ascii (true, true, false, false, false, true, true, false)), (String
    ((Ascii (true, true, true, true, false, true, true, false)), (String
    ((Ascii (true, false, true, false, true, true, true, false)), (String
    ((Ascii (false, true, true, true, false, true, true, false)), (String
    ((Ascii (false, false, true, false, true, true, true, false)), (String
    ((Ascii (true, true, false, true, false, false, true, false)), (String
    ((Ascii (true, false, true, false, false, true, true, false)), (String
    ((Ascii (true, false, false, true, true, true, true, false)), (String
    ((Ascii (false, false, false, false, true, false, true, false)), (String
    ((Ascii (false, true, false, false, true, true, true, false)), (String
    ((Ascii (true, false, true, false, false, true, true, false)), (String
    ((Ascii (false, true, true, false, false, true, true, false)), (String
    ((Ascii (true, false, false, true, false, true, true, false)), (String
    ((Ascii (false, false, false, true, true, true, true, false)),
    EmptyString)))))))))))))))))))))))))))))))))))))))))))))))))))))))))))))))))))))))))),
    (fun a1 _ _ _ _ _ -> ((session_GetSessionForAccountKeyPrefix_ok a1),
    (session_GetSessionForAccountKeyPrefix a1)))) :: (((String ((Ascii (true,
    true, false, false, true, true, true, false)), (String ((Ascii (true,
    false, true, false, false, true, true, false)), (String ((Ascii (true,
    true, false, false, true, true, true, false)), (String ((Ascii (true,
    true, false, false, true, true, true, false)), (String ((Ascii (true,
    false, false, true, false, true, true, false)), (String ((Ascii (true,
    true, true, true, false, true, true, false)), (String ((Ascii (false,
    true, true, true, false, true, true, false)), (String ((Ascii (true,
    true, true, true, true, false, true, false)), (String ((Ascii (true,
    true, false, false, true, false, true, false)), (String ((Ascii (true,
    false, true, false, false, true, true, false)), (String ((Ascii (true,
    true, false, false, true, true, true, false)), (String ((Ascii (true,
    true, false, false, true, true, true, false)), (String ((Ascii (true,
    false, false, true, false, true, true, false)), (String ((Ascii (true,
    true, true, true, false, true, true, false)), (String ((Ascii (false,
    true, true, true, false, true, true, false)), (String ((Ascii (false,
    true, true, false, false, false, true, false)), (String ((Ascii (true,
    true, true, true, false, true, true, false)), (String ((Ascii (false,
    true, false, false, true, true, true, false)), (String ((Ascii (true,
    false, false, false, false, false, true, false)), (String ((Ascii (true,
    true, false, false, false, true, true, false)), (String ((Ascii (true,
    true, false, false, false, true, true, false)), (String ((Ascii (true,
    true, true, true, false, true, true, false)), (String ((Ascii (true,
    false, true, false, true, true, true, false)), (String ((Ascii (false,
    true, true, true, false, true, true, false)), (String ((Ascii (false,
    false, true, false, true, true, true, false)), (String ((Ascii (true,
    true, false, true, false, false, true, false)), (String ((Ascii (true,
    false, true, false, false, true, true, false)), (String ((Ascii (true,
    false, false, true, true, true, true, false)),
    EmptyString)))))))))))))))))))))))))))))))))))))))))))))))))))))))),
    (fun a1 _ id1 _ _ _ -> ((session_SessionForAccountKey_ok a1 id1),
    (session_SessionForAccountKey a1 id1)))) :: (((String ((Ascii (true,
    true, false, false, true, true, true, false)), (String ((Ascii (true,
    false, true, false, false, true, true, false)), (String ((Ascii (true,
    true, false, false, true, true, true, false)), (String ((Ascii (true,
    true, false, false, true, true, true, false)), (String ((Ascii (true,
    false, false, true, false, true, true, false)), (String ((Ascii (true,
    true, true, true, false, true, true, false)), (String ((Ascii (false,
    true, true, true, false, true, true, false)), (String ((Ascii (true,
    true, true, true, true, false, true, false)), (String ((Ascii (true,
    true, true, false, false, false, true, false)), (String ((Ascii (true,
    false, true, false, false, true, true, false)), (String ((Ascii (false,
    false, true, false, true, true, true, false)), (String ((Ascii (true,
    true, false, false, true, false, true, false)), (String ((Ascii (true,
    false, true, false, false, true, true, false)), (String ((Ascii (true,
    true, false, false, true, true, true, false)), (String ((Ascii (true,
    true, false, false, true, true, true, false)), (String ((Ascii (true,
    false, false, true, false, true, true, false)), (String ((Ascii (true,
    true, true, true, false, true, true, false)), (String ((Ascii (false,
    true, true, true, false, true, true, false)), (String ((Ascii (false,
    true, true, false, false, false, true, false)), (String ((Ascii (true,
    true, true, true, false, true, true, false)), (String ((Ascii (false,
    true, false, false, true, true, true, false)), (String ((Ascii (false,
    true, true, true, false, false, true, false)), (String ((Ascii (true,
    true, true, true, false, true, true, false)), (String ((Ascii (false,
    false, true, false, false, true, true, false)), (String ((Ascii (true,
    false, true, false, false, true, true, false)), (String ((Ascii (true,
    true, false, true, false, false, true, false)), (String ((Ascii (true,
    false, true, false, false, true, true, false)), (String ((Ascii (true,
    false, false, true, true, true, true, false)), (String ((Ascii (false,
    false, false, false, true, false, true, false)), (String ((Ascii (false,
    true, false, false, true, true, true, false)), (String ((Ascii (true,
    false, true, false, false, true, true, false)), (String ((Ascii (false,
    true, true, false, false, true, true, false)), (String ((Ascii (true,
    false, false, true, false, true, true, false)), (String ((Ascii (false,
    false, false, true, true, true, true, false)),
    EmptyString)))))))))))))))))))))))))))))))))))))))))))))))))))))))))))))))))))),
    (fun a1 _ _ _ _ _ -> ((session_GetSessionForNodeKeyPrefix_ok a1),
    (session_GetSessionForNodeKeyPrefix a1)))) :: (((String ((Ascii (true,
    true, false, false, true, true, true, false)), (String ((Ascii (true,
    false, true, false, false, true, true, false)), (String ((Ascii (true,
    true, false, false, true, true, true, false)), (String ((Ascii (true,
    true, false, false, true, true, true, false)), (String ((Ascii (true,
    false, false, true, false, true, true, false)), (String ((Ascii (true,
    true, true, true, false, true, true, false)), (String ((Ascii (false,
    true, true, true, false, true, true, false)), (String ((Ascii (true,
    true, true, true, true, false, true, false)), (String ((Ascii (true,
    true, false, false, true, false, true, false)), (String ((Ascii (true,
    false, true, false, false, true, true, false)), (String ((Ascii (true,
    true, false, false, true, true, true, false)), (String ((Ascii (true,
    true, false, false, true, true, true, false)), (String ((Ascii (true,
    false, false, true, false, true, true, false)), (String ((Ascii (true,
    true, true, true, false, true, true, false)), (String ((Ascii (false,
    true, true, true, false, true, true, false)), (String ((Ascii (false,
    true, true, false, false, false, true, false)), (String ((Ascii (true,
    true, true, true, false, true, true, false)), (String ((Ascii (false,
    true, false, false, true, true, true, false)), (String ((Ascii (false,
    true, true, true, false, false, true, false)), (String ((Ascii (true,
    true, true, true, false, true, true, false)), (String ((Ascii (false,
    false, true, false, false, true, true, false)), (String ((Ascii (true,
    false, true, false, false, true, true, false)), (String ((Ascii (true,
    true, false, true, false, false, true, false)), (String ((Ascii (true,
    false, true, false, false, true, true, false)), (String ((Ascii (true,
    false, false, true, true, true, true, false)),
    EmptyString)))))))))))))))))))))))))))))))))))))))))))))))))),
    (fun a1 _ id1 _ _ _ -> ((session_SessionForNodeKey_ok a1 id1),
    (session_SessionForNodeKey a1 id1)))) :: (((String ((Ascii (true, true,
    false, false, true, true, true, false)), (String ((Ascii (true, false,
    true, false, false, true, true, false)), (String ((Ascii (true, true,
    false, false, true, true, true, false)), (String ((Ascii (true, true,
    false, false, true, true, true, false)), (String ((Ascii (true, false,
    false, true, false, true, true, false)), (String ((Ascii (true, true,
    true, true, false, true, true, false)), (String ((Ascii (false, true,
    true, true, false, true, true, false)), (String ((Ascii (true, true,
    true, true, true, false, true, false)), (String ((Ascii (true, true,
    true, false, false, false, true, false)), (String ((Ascii (true, false,
    true, false, false, true, true, false)), (String ((Ascii (false, false,
    true, false, true, true, true, false)), (String ((Ascii (true, true,
    false, false, true, false, true, false)), (String ((Ascii (true, false,
    true, false, false, true, true, false)), (String ((Ascii (true, true,
    false, false, true, true, true, false)), (String ((Ascii (true, true,
    false, false, true, true, true, false)), (String ((Ascii (true, false,
    false, true, false, true, true, false)), (String ((Ascii (true, true,
    true, true, false, true, true, false)), (String ((Ascii (false, true,
    true, true, false, true, true, false)), (String ((Ascii (false, true,
    true, false, false, false, true, false)), (String ((Ascii (true, true,
    true, true, false, true, true, false)), (String ((Ascii (false, true,
    false, false, true, true, true, false)), (String ((Ascii (true, true,
    false, false, true, false, true, false)), (String ((Ascii (true, false,
    true, false, true, true, true, false)), (String ((Ascii (false, true,
    false, false, false, true, true, false)), (String ((Ascii (true, true,
    false, false, true, true, true, false)), (String ((Ascii (true, true,
    false, false, false, true, true, false)), (String ((Ascii (false, true,
    false, false, true, true, true, false)), (String ((Ascii (true, false,
    false, true, false, true, true, false)), (String ((Ascii (false, false,
    false, false, true, true, true, false)), (String ((Ascii (false, false,
    true, false, true, true, true, false)), (String ((Ascii (true, false,
    false, true, false, true, true, false)), (String ((Ascii (true, true,
    true, true, false, true, true, false)), (String ((Ascii (false, true,
    true, true, false, true, true, false)), (String ((Ascii (true, true,
    false, true, false, false, true, false)), (String ((Ascii (true, false,
    true, false, false, true, true, false)), (String ((Ascii (true, false,
    false, true, true, true, true, false)), (String ((Ascii (false, false,
    false, false, true, false, true, false)), (String ((Ascii (false, true,
    false, false, true, true, true, false)), (String ((Ascii (true, false,
    true, false, false, true, true, false)), (String ((Ascii (false, true,
    true, false, false, true, true, false)), (String ((Ascii (true, false,
    false, true, false, true, true, false)), (String ((Ascii (false, false,
    false, true, true, true, true, false)),
    EmptyString)))))))))))))))))))))))))))))))))))))))))))))))))))))))))))))))))))))))))))))))))))),
    (fun _ _ id1 _ _ _ ->
    ((session_GetSessionForSubscriptionKeyPrefix_ok id1),
    (session_GetSessionForSubscriptionKeyPrefix id1)))) :: (((String ((Ascii
    (true, true, false, false, true, true, true, false)), (String ((Ascii
    (true, false, true, false, false, true, true, false)), (String ((Ascii
    (true, true, false, false, true, true, true, false)), (String ((Ascii
    (true, true, false, false, true, true, true, false)), (String ((Ascii
    (true, false, false, true, false, true, true, false)), (String ((Ascii
    (true, true, true, true, false, true, true, false)), (String ((Ascii
    (false, true, true, true, false, true, true, false)), (String ((Ascii
    (true, true, true, true, true, false, true, false)), (String ((Ascii
    (true, true, false, false, true, false, true, false)), (String ((Ascii
    (true, false, true, false, false, true, true, false)), (String ((Ascii
    (true, true, false, false, true, true, true, false)), (String ((Ascii
    (true, true, false, false, true, true, true, false)), (String ((Ascii
    (true, false, false, true, false, true, true, false)), (String ((Ascii
    (true, true, true, true, false, true, true, false)), (String ((Ascii
    (false, true, true, true, false, true, true, false)), (String ((Ascii
    (false, true, true, false, false, false, true, false)), (String ((Ascii
    (true, true, true, true, false, true, true, false)), (String ((Ascii
    (false, true, false, false, true, true, true, false)), (String ((Ascii
    (true, true, false, false, true, false, true, false)), (String ((Ascii
    (true, false, true, false, true, true, true, false)), (String ((Ascii
    (false, true, false, false, false, true, true, false)), (String ((Ascii
    (true, true, false, false, true, true, true, false)), (String ((Ascii
    (true, true, false, false, false, true, true, false)), (String ((Ascii
    (false, true, false, false, true, true, true, false)), (String ((Ascii
    (true, false, false, true, false, true, true, false)), (String ((Ascii
    (false, false, false, false, true, true, true, false)), (String ((Ascii
    (false, false, true, false, true, true, true, false)), (String ((Ascii
    (true, false, false, true, false, true, true, false)), (String ((Ascii
    (true, true, true, true, false, true, true, false)), (String ((Ascii
    (false, true, true, true, false, true, true, false)), (String ((Ascii
    (true, true, false, true, false, false, true, false)), (String ((Ascii
    (true, false, true, false, false, true, true, false)), (String ((Ascii
    (true, false, false, true, true, true, true, false)),
    EmptyString)))))))))))))))))))))))))))))))))))))))))))))))))))))))))))))))))),
    (fun _ _ id1 id2 _ _ -> ((session_SessionForSubscriptionKey_ok id1 id2),
    (session_SessionForSubscriptionKey id1 id2)))) :: (((String ((Ascii
    (true, true, false, false, true, true, true, false)), (String ((Ascii
    (true, false, true, false, false, true, true, false)), (String ((Ascii
    (true, true, false, false, true, true, true, false)), (String ((Ascii
    (true, true, false, false, true, true, true, false)), (String ((Ascii
    (true, false, false, true, false, true, true, false)), (String ((Ascii
    (true, true, true, true, false, true, true, false)), (String ((Ascii
    (false, true, true, true, false, true, true, false)), (String ((Ascii
    (true, true, true, true, true, false, true, false)), (String ((Ascii
    (true, true, true, false, false, false, true, false)), (String ((Ascii
    (true, false, true, false, false, true, true, false)), (String ((Ascii
    (false, false, true, false, true, true, true, false)), (String ((Ascii
    (true, true, false, false, true, false, true, false)), (String ((Ascii
    (true, false, true, false, false, true, true, false)), (String ((Ascii
    (true, true, false, false, true, true, true, false)), (String ((Ascii
    (true, true, false, false, true, true, true, false)), (String ((Ascii
    (true, false, false, true, false, true, true, false)), (String ((Ascii
    (true, true, true, true, false, true, true, false)), (String ((Ascii
    (false, true, true, true, false, true, true, false)), (String ((Ascii
    (false, true, true, false, false, false, true, false)), (String ((Ascii
    (true, true, true, true, false, true, true, false)), (String ((Ascii
    (false, true, false, false, true, true, true, false)), (String ((Ascii
    (true, false, false, false, false, false, true, false)), (String ((Ascii
    (false, false, true, true, false, true, true, false)), (String ((Ascii
    (false, false, true, true, false, true, true, false)), (String ((Ascii
    (true, true, true, true, false, true, true, false)), (String ((Ascii
    (true, true, false, false, false, true, true, false)), (String ((Ascii
    (true, false, false, false, false, true, true, false)), (String ((Ascii
    (false, false, true, false, true, true, true, false)), (String ((Ascii
    (true, false, false, true, false, true, true, false)), (String ((Ascii
    (true, true, true, true, false, true, true, false)), (String ((Ascii
    (false, true, true, true, false, true, true, false)), (String ((Ascii
    (true, true, false, true, false, false, true, false)), (String ((Ascii
    (true, false, true, false, false, true, true, false)), (String ((Ascii
    (true, false, false, true, true, true, true, false)), (String ((Ascii
    (false, false, false, false, true, false, true, false)), (String ((Ascii
    (false, true, false, false, true, true, true, false)), (String ((Ascii
    (true, false, true, false, false, true, true, false)), (String ((Ascii
    (false, true, true, false, false, true, true, false)), (String ((Ascii
    (true, false, false, true, false, true, true, false)), (String ((Ascii
    (false, false, false, true, true, true, true, false)),
    EmptyString)))))))))))))))))))))))))))))))))))))))))))))))))))))))))))))))))))))))))))))))),
    (fun a1 _ id1 _ _ _ ->
    ((session_GetSessionForAllocationKeyPrefix_ok id1 a1),
    (session_GetSessionForAllocationKeyPrefix id1 a1)))) :: (((String ((Ascii
    (true, true, false, false, true, true, true, false)), (String ((Ascii
    (true, false, true, false, false, true, true, false)), (String ((Ascii
    (true, true, false, false, true, true, true, false)), (String ((Ascii
    (true, true, false, false, true, true, true, false)), (String ((Ascii
    (true, false, false, true, false, true, true, false)), (String ((Ascii
    (true, true, true, true, false, true, true, false)), (String ((Ascii
    (false, true, true, true, false, true, true, false)), (String ((Ascii
    (true, true, true, true, true, false, true, false)), (String ((Ascii
    (true, true, false, false, true, false, true, false)), (String ((Ascii
    (true, false, true, false, false, true, true, false)), (String ((Ascii
    (true, true, false, false, true, true, true, false)), (String ((Ascii
    (true, true, false, false, true, true, true, false)), (String ((Ascii
    (true, false, false, true, false, true, true, false)), (String ((Ascii
    (true, true, true, true, false, true, true, false)), (String ((Ascii
    (false, true, true, true, false, true, true, false)), (String ((Ascii
    (false, true, true, false, false, false, true, false)), (String ((Ascii
    (true, true, true, true, false, true, true, false)), (String ((Ascii
    (false, true, false, false, true, true, true, false)), (String ((Ascii
    (true, false, false, false, false, false, true, false)), (String ((Ascii
    (false, false, true, true, false, true, true, false)), (String ((Ascii
    (false, false, true, true, false, true, true, false)), (String ((Ascii
    (true, true, true, true, false, true, true, false)), (String ((Ascii
    (true, true, false, false, false, true, true, false)), (String ((Ascii
    (true, false, false, false, false, true, true, false)), (String ((Ascii
    (false, false, true, false, true, true, true, false)), (String ((Ascii
    (true, false, false, true, false, true, true, false)), (String ((Ascii
    (true, true, true, true, false, true, true, false)), (String ((Ascii
    (false, true, true, true, false, true, true, false)), (String ((Ascii
    (true, true, false, true, false, false, true, false)), (String ((Ascii
    (true, false, true, false, false, true, true, false)), (String ((Ascii
    (true, false, false, true, true, true, true, false)),
    EmptyString)))))))))))))))))))))))))))))))))))))))))))))))))))))))))))))),
    (fun a1 _ id1 id2 _ _ ->
    ((session_SessionForAllocationKey_ok id1 a1 id2),
    (session_SessionForAllocationKey id1 a1 id2)))) :: (((String ((Ascii
    (true, true, false, false, true, true, true, false)), (String ((Ascii
    (true, false, true, false, false, true, true, false)), (String ((Ascii
    (true, true, false, false, true, true, true, false)), (String ((Ascii
    (true, true, false, false, true, true, true, false)), (String ((Ascii
    (true, false, false, true, false, true, true, false)), (String ((Ascii
    (true, true, true, true, false, true, true, false)), (String ((Ascii
    (false, true, true, true, false, true, true, false)), (String ((Ascii
    (true, true, true, true, true, false, true, false)), (String ((Ascii
    (true, true, true, false, false, false, true, false)), (String ((Ascii
    (true, false, true, false, false, true, true, false)), (String ((Ascii
    (false, false, true, false, true, true, true, false)), (String ((Ascii
    (true, true, false, false, true, false, true, false)), (String ((Ascii
    (true, false, true, false, false, true, true, false)), (String ((Ascii
    (true, true, false, false, true, true, true, false)), (String ((Ascii
    (true, true, false, false, true, true, true, false)), (String ((Ascii
    (true, false, false, true, false, true, true, false)), (String ((Ascii
    (true, true, true, true, false, true, true, false)), (String ((Ascii
    (false, true, true, true, false, true, true, false)), (String ((Ascii
    (false, true, true, false, false, false, true, false)), (String ((Ascii
    (true, true, true, true, false, true, true, false)), (String ((Ascii
    (false, true, false, false, true, true, true, false)), (String ((Ascii
    (true, false, false, true, false, false, true, false)), (String ((Ascii
    (false, true, true, true, false, true, true, false)), (String ((Ascii
    (true, false, false, false, false, true, true, false)), (String ((Ascii
    (true, true, false, false, false, true, true, false)), (String ((Ascii
    (false, false, true, false, true, true, true, false)), (String ((Ascii
    (true, false, false, true, false, true, true, false)), (String ((Ascii
    (false, true, true, false, true, true, true, false)), (String ((Ascii
    (true, false, true, false, false, true, true, false)), (String ((Ascii
    (true, false, false, false, false, false, true, false)), (String ((Ascii
    (false, false, true, false, true, true, true, false)), (String ((Ascii
    (true, true, false, true, false, false, true, false)), (String ((Ascii
    (true, false, true, false, false, true, true, false)), (String ((Ascii
    (true, false, false, true, true, true, true, false)), (String ((Ascii
    (false, false, false, false, true, false, true, false)), (String ((Ascii
    (false, true, false, false, true, true, true, false)), (String ((Ascii
    (true, false, true, false, false, true, true, false)), (String ((Ascii
    (false, true, true, false, false, true, true, false)), (String ((Ascii
    (true, false, false, true, false, true, true, false)), (String ((Ascii
    (false, false, false, true, true, true, true, false)),
    EmptyString)))))))))))))))))))))))))))))))))))))))))))))))))))))))))))))))))))))))))))))))),
    (fun _ _ _ _ t0 _ -> ((session_GetSessionForInactiveAtKeyPrefix_ok t0),
    (session_GetSessionForInactiveAtKeyPrefix t0)))) :: (((String ((Ascii
    (true, true, false, false, true, true, true, false)), (String ((Ascii
    (true, false, true, false, false, true, true, false)), (String ((Ascii
    (true, true, false, false, true, true, true, false)), (String ((Ascii
    (true, true, false, false, true, true, true, false)), (String ((Ascii
    (true, false, false, true, false, true, true, false)), (String ((Ascii
    (true, true, true, true, false, true, true, false)), (String ((Ascii
    (false, true, true, true, false, true, true, false)), (String ((Ascii
    (true, true, true, true, true, false, true, false)), (String ((Ascii
    (true, true, false, false, true, false, true, false)), (String ((Ascii
    (true, false, true, false, false, true, true, false)), (String ((Ascii
    (true, true, false, false, true, true, true, false)), (String ((Ascii
    (true, true, false, false, true, true, true, false)), (String ((Ascii
    (true, false, false, true, false, true, true, false)), (String ((Ascii
    (true, true, true, true, false, true, true, false)), (String ((Ascii
    (false, true, true, true, false, true, true, false)), (String ((Ascii
    (false, true, true, false, false, false, true, false)), (String ((Ascii
    (true, true, true, true, false, true, true, false)), (String ((Ascii
    (false, true, false, false, true, true, true, false)), (String ((Ascii
    (true, false, false, true, false, false, true, false)), (String ((Ascii
    (false, true, true, true, false, true, true, false)), (String ((Ascii
    (true, false, false, false, false, true, true, false)), (String ((Ascii
    (true, true, false, false, false, true, true, false)), (String ((Ascii
    (false, false, true, false, true, true, true, false)), (String ((Ascii
    (true, false, false, true, false, true, true, false)), (String ((Ascii
    (false, true, true, false, true, true, true, false)), (String ((Ascii
    (true, false, true, false, false, true, true, false)), (String ((Ascii
    (true, false, false, false, false, false, true, false)), (String ((Ascii
    (false, false, true, false, true, true, true, false)), (String ((Ascii
    (true, true, false, true, false, false, true, false)), (String ((Ascii
    (true, false, true, false, false, true, true, false)), (String ((Ascii
    (true, false, false, true, true, true, true, false)),
    EmptyString)))))))))))))))))))))))))))))))))))))))))))))))))))))))))))))),
    (fun _ _ id1 _ t0 _ -> ((session_SessionForInactiveAtKey_ok t0 id1),
    (session_SessionForInactiveAtKey t0 id1)))) :: (((String ((Ascii (true,
    true, false, false, true, true, true, false)), (String ((Ascii (true,
    false, true, false, true, true, true, false)), (String ((Ascii (false,
    true, false, false, false, true, true, false)), (String ((Ascii (true,
    true, false, false, true, true, true, false)), (String ((Ascii (true,
    true, false, false, false, true, true, false)), (String ((Ascii (false,
    true, false, false, true, true, true, false)), (String ((Ascii (true,
    false, false, true, false, true, true, false)), (String ((Ascii (false,
    false, false, false, true, true, true, false)), (String ((Ascii (false,
    false, true, false, true, true, true, false)), (String ((Ascii (true,
    false, false, true, false, true, true, false)), (String ((Ascii (true,
    true, true, true, false, true, true, false)), (String ((Ascii (false,
    true, true, true, false, true, true, false)), (String ((Ascii (true,
    true, true, true, true, false, true, false)), (String ((Ascii (true,
    true, false, false, true, false, true, false)), (String ((Ascii (true,
    false, true, false, true, true, true, false)), (String ((Ascii (false,
    true, false, false, false, true, true, false)), (String ((Ascii (true,
    true, false, false, true, true, true, false)), (String ((Ascii (true,
    true, false, false, false, true, true, false)), (String ((Ascii (false,
    true, false, false, true, true, true, false)), (String ((Ascii (true,
    false, false, true, false, true, true, false)), (String ((Ascii (false,
    false, false, false, true, true, true, false)), (String ((Ascii (false,
    false, true, false, true, true, true, false)), (String ((Ascii (true,
    false, false, true, false, true, true, false)), (String ((Ascii (true,
    true, true, true, false, true, true, false)), (String ((Ascii (false,
    true, true, true, false, true, true, false)), (String ((Ascii (true,
    true, false, true, false, false, true, false)), (String ((Ascii (true,
    false, true, false, false, true, true, false)), (String ((Ascii (true,
    false, false, true, true, true, true, false)),
    EmptyString)))))))))))))))))))))))))))))))))))))))))))))))))))))))),
    (fun _ _ id1 _ _ _ -> ((subscription_SubscriptionKey_ok id1),
    (subscription_SubscriptionKey id1)))) :: (((String ((Ascii (true, true,
    false, false, true, true, true, false)), (String ((Ascii (true, false,
    true, false, true, true, true, false)), (String ((Ascii (false, true,
    false, false, false, true, true, false)), (String ((Ascii (true, true,
    false, false, true, true, true, false)), (String ((Ascii (true, true,
    false, false, false, true, true, false)), (String ((Ascii (false, true,
    false, false, true, true, true, false)), (String ((Ascii (true, false,
    false, true, false, true, true, false)), (String ((Ascii (false, false,
    false, false, true, true, true, false)), (String ((Ascii (false, false,
    true, false, true, true, true, false)), (String ((Ascii (true, false,
    false, true, false, true, true, false)), (String ((Ascii (true, true,
    true, true, false, true, true, false)), (String ((Ascii (false, true,
    true, true, false, true, true, false)), (String ((Ascii (true, true,
    true, true, true, false, true, false)), (String ((Ascii (true, true,
    true, false, false, false, true, false)), (String ((Ascii (true, false,
    true, false, false, true, true, false)), (String ((Ascii (false, false,
    true, false, true, true, true, false)), (String ((Ascii (true, true,
    false, false, true, false, true, false)), (String ((Ascii (true, false,
    true, false, true, true, true, false)), (String ((Ascii (false, true,
    false, false, false, true, true, false)), (String ((Ascii (true, true,
    false, false, true, true, true, false)), (String ((Ascii (true, true,
    false, false, false, true, true, false)), (String ((Ascii (false, true,
    false, false, true, true, true, false)), (String ((Ascii (true, false,
    false, true, false, true, true, false)), (String ((Ascii (false, false,
    false, false, true, true, true, false)), (String ((Ascii (false, false,
    true, false, true, true, true, false)), (String ((Ascii (true, false,
    false, true, false, true, true, false)), (String ((Ascii (true, true,
    true, true, false, true, true, false)), (String ((Ascii (false, true,
    true, true, false, true, true, false)), (String ((Ascii (false, true,
    true, false, false, false, true, false)), (String ((Ascii (true, true,
    true, true, false, true, true, false)), (String ((Ascii (false, true,
    false, false, true, true, true, false)), (String ((Ascii (true, false,
    false, false, false, false, true, false)), (String ((Ascii (true, true,
    false, false, false, true, true, false)), (String ((Ascii (true, true,
    false, false, false, true, true, false)), (String ((Ascii (true, true,
    true, true, false, true, true, false)), (String ((Ascii (true, false,
    true, false, true, true, true, false)), (String ((Ascii (false, true,
    true, true, false, true, true, false)), (String ((Ascii (false, false,
    true, false, true, true, true, false)), (String ((Ascii (true, true,
    false, true, false, false, true, false)), (String ((Ascii (true, false,
    true, false, false, true, true, false)), (String ((Ascii (true, false,
    false, true, true, true, true, false)), (String ((Ascii (false, false,
    false, false, true, false, true, false)), (String ((Ascii (false, true,
    false, false, true, true, true, false)), (String ((Ascii (true, false,
    true, false, false, true, true, false)), (String ((Ascii (false, true,
    true, false, false, true, true, false)), (String ((Ascii (true, false,
    false, true, false, true, true, false)), (String ((Ascii (false, false,
    false, true, true, true, true, false)),
    EmptyString)))))))))))))))))))))))))))))))))))))))))))))))))))))))))))))))))))))))))))))))))))))))))))))),
    (fun a1 _ _ _ _ _ ->
    ((subscription_GetSubscriptionForAccountKeyPrefix_ok a1),
    (subscription_GetSubscriptionForAccountKeyPrefix a1)))) :: (((String
    ((Ascii (true, true, false, false, true, true, true, false)), (String
    ((Ascii (true, false, true, false, true, true, true, false)), (String
    ((Ascii (false, true, false, false, false, true, true, false)), (String
    ((Ascii (true, true, false, false, true, true, true, false)), (String
    ((Ascii (true, true, false, false, false, true, true, false)), (String
    ((Ascii (false, true, false, false, true, true, true, false)), (String
    ((Ascii (true, false, false, true, false, true, true, false)), (String
    ((Ascii (false, false, false, false, true, true, true, false)), (String
    ((Ascii (false, false, true, false, true, true, true, false)), (String
    ((Ascii (true, false, false, true, false, true, true, false)), (String
    ((Ascii (true, true, true, true, false, true, true, false)), (String
    ((Ascii (false, true, true, true, false, true, true, false)), (String
    ((Ascii (true, true, true, true, true, false, true, false)), (String
    ((Ascii (true, true, false, false, true, false, true, false)), (String
    ((Ascii (true, false, true, false, true, true, true, false)), (String
    ((Ascii (false, true, false, false, false, true, true, false)), (String
    ((Ascii (true, true, false, false, true, true, true, false)), (String
    ((Ascii (true, true, false, false, false, true, true, false)), (String
    ((Ascii (false, true, false, false, true, true, true, false)), (String
    ((Ascii (true, false, false, true, false, true, true, false)), (String
    ((Ascii (false, false, false, false, true, true, true, false)), (String
    ((Ascii (false, false, true, false, true, true, true, false)), (String
    ((Ascii (true, false, false, true, false, true, true, false)), (String
    ((Ascii (true, true, true, true, false, true, true, false)), (String
    ((Ascii (false, true, true, true, false, true, true, false)), (String
    ((Ascii (false, true, true, false, false, false, true, false)), (String
    ((Ascii (true, true, true, true, false, true, true, false)), (String
    ((Ascii (false, true, false, false, true, true, true, false)), (String
    ((Ascii (true, false, false, false, false, false, true, false)), (String
    ((Ascii (true, true, false, false, false, true, true, false)), (String
    ((Ascii (true, true, false, false, false, true, true, false)), (String
    ((Ascii (true, true, true, true, false, true, true, false)), (String
    ((Ascii (true, false, true, false, true, true, true, false)), (String
    ((Ascii (false, true, true, true, false, true, true, false)), (String
    ((Ascii (false, false, true, false, true, true, true, false)), (String
    ((Ascii (true, true, false, true, false, false, true, false)), (String
    ((Ascii (true, false, true, false, false, true, true, false)), (String
    ((Ascii (true, false, false, true, true, true, true, false)),
    EmptyString)))))))))))))))))))))))))))))))))))))))))))))))))))))))))))))))))))))))))))),
    (fun a1 _ id1 _ _ _ ->
    ((subscription_SubscriptionForAccountKey_ok a1 id1),
    (subscription_SubscriptionForAccountKey a1 id1)))) :: (((String ((Ascii
    (true, true, false, false, true, true, true, false)), (String ((Ascii
    (true, false, true, false, true, true, true, false)), (String ((Ascii
    (false, true, false, false, false, true, true, false)), (String ((Ascii
    (true, true, false, false, true, true, true, false)), (String ((Ascii
    (true, true, false, false, false, true, true, false)), (String ((Ascii
    (false, true, false, false, true, true, true, false)), (String ((Ascii
    (true, false, false, true, false, true, true, false)), (String ((Ascii
    (false, false, false, false, true, true, true, false)), (String ((Ascii
    (false, false, true, false, true, true, true, false)), (String ((Ascii
    (true, false, false, true, false, true, true, false)), (String ((Ascii
    (true, true, true, true, false, true, true, false)), (String ((Ascii
    (false, true, true, true, false, true, true, false)), (String ((Ascii
    (true, true, true, true, true, false, true, false)), (String ((Ascii
    (true, true, true, false, false, false, true, false)), (String ((Ascii
    (true, false, true, false, false, true, true, false)), (String ((Ascii
    (false, false, true, false, true, true, true, false)), (String ((Ascii
    (true, true, false, false, true, false, true, false)), (String ((Ascii
    (true, false, true, false, true, true, true, false)), (String ((Ascii
    (false, true, false, false, false, true, true, false)), (String ((Ascii
    (true, true, false, false, true, true, true, false)), (String ((Ascii
    (true, true, false, false, false, true, true, false)), (String ((Ascii
    (false, true, false, false, true, true, true, false)), (String ((Ascii
    (true, false, false, true, false, true, true, false)), (String ((Ascii
    (false, false, false, false, true, true, true, false)), (String ((Ascii
    (false, false, true, false, true, true, true, false)), (String ((Ascii
    (true, false, false, true, false, true, true, false)), (String ((Ascii
    (true, true, true, true, false, true, true, false)), (String ((Ascii
    (false, true, true, true, false, true, true, false)), (String ((Ascii
    (false, true, true, false, false, false, true, false)), (String ((Ascii
    (true, true, true, true, false, true, true, false)), (String ((Ascii
    (false, true, false, false, true, true, true, false)), (String ((Ascii
    (false, true, true, true, false, false, true, false)), (String ((Ascii
    (true, true, true, true, false, true, true, false)), (String ((Ascii
    (false, false, true, false, false, true, true, false)), (String ((Ascii
    (true, false, true, false, false, true, true, false)), (String ((Ascii
    (true, true, false, true, false, false, true, false)), (String ((Ascii
    (true, false, true, false, false, true, true, false)), (String ((Ascii
    (true, false, false, true, true, true, true, false)), (String ((Ascii
    (false, false, false, false, true, false, true, false)), (String ((Ascii
    (false, true, false, false, true, true, true, false)), (String ((Ascii
    (true, false, true, false, false, true, true, false)), (String ((Ascii
    (false, true, true, false, false, true, true, false)), (String ((Ascii
    (true, false, false, true, false, true, true, false)), (String ((Ascii
    (false, false, false, true, true, true, true, false)),
    EmptyString)))))))))))))))))))))))))))))))))))))))))))))))))))))))))))))))))))))))))))))))))))))))),
    (fun a1 _ _ _ _ _ ->
    ((subscription_GetSubscriptionForNodeKeyPrefix_ok a1),
    (subscription_GetSubscriptionForNodeKeyPrefix a1)))) :: (((String ((Ascii
    (true, true, false, false, true, true, true, false)), (String ((Ascii
    (true, false, true, false, true, true, true, false)), (String ((Ascii
    (false, true, false, false, false, true, true, false)), (String ((Ascii
    (true, true, false, false, true, true, true, false)), (String ((Ascii
    (true, true, false, false, false, true, true, false)), (String ((Ascii
    (false, true, false, false, true, true, true, false)), (String ((Ascii
    (true, false, false, true, false, true, true, false)), (String ((Ascii
    (false, false, false, false, true, true, true, false)), (String ((Ascii
    (false, false, true, false, true, true, true, false)), (String ((Ascii
    (true, false, false, true, false, true, true, false)), (String ((Ascii
    (true, true, true, true, false, true, true, false)), (String ((Ascii
    (false, true, true, true, false, true, true, false)), (String ((Ascii
    (true, true, true, true, true, false, true, false)), (String ((Ascii
    (true, true, false, false, true, false, true, false)), (String ((Ascii
    (true, false, true, false, true, true, true, false)), (String ((Ascii
    (false, true, false, false, false, true, true, false)), (String ((Ascii
    (true, true, false, false, true, true, true, false)), (String ((Ascii
    (true, true, false, false, false, true, true, false)), (String ((Ascii
    (false, true, false, false, true, true, true, false)), (String ((Ascii
    (true, false, false, true, false, true, true, false)), (String ((Ascii
    (false, false, false, false, true, true, true, false)), (String ((Ascii
    (false, false, true, false, true, true, true, false)), (String ((Ascii
    (true, false, false, true, false, true, true, false)), (String ((Ascii
    (true, true, true, true, false, true, true, false)), (String ((Ascii
    (false, true, true, true, false, true, true, false)), (String ((Ascii
    (false, true, true, false, false, false, true, false)), (String ((Ascii
    (true, true, true, true, false, true, true, false)), (String ((Ascii
    (false, true, false, false, true, true, true, false)), (String ((Ascii
    (false, true, true, true, false, false, true, false)), (String ((Ascii
    (true, true, true, true, false, true, true, false)), (String ((Ascii
    (false, false, true, false, false, true, true, false)), (String ((Ascii
    (true, false, true, false, false, true, true, false)), (String ((Ascii
    (true, true, false, true, false, false, true, false)), (String ((Ascii
    (true, false, true, false, false, true, true, false)), (String ((Ascii
    (true, false, false, true, true, true, true, false)),
    EmptyString)))))))))))))))))))))))))))))))))))))))))))))))))))))))))))))))))))))),
    (fun a1 _ id1 _ _ _ -> ((subscription_SubscriptionForNodeKey_ok a1 id1),
    (subscription_SubscriptionForNodeKey a1 id1)))) :: (((String ((Ascii
    (true, true, false, false, true, true, true, false)), (String ((Ascii
    (true, false, true, false, true, true, true, false)), (String ((Ascii
    (false, true, false, false, false, true, true, false)), (String ((Ascii
    (true, true, false, false, true, true, true, false)), (String ((Ascii
    (true, true, false, false, false, true, true, false)), (String ((Ascii
    (false, true, false, false, true, true, true, false)), (String ((Ascii
    (true, false, false, true, false, true, true, false)), (String ((Ascii
    (false, false, false, false, true, true, true, false)), (String ((Ascii
    (false, false, true, false, true, true, true, false)), (String ((Ascii
    (true, false, false, true, false, true, true, false)), (String ((Ascii
    (true, true, true, true, false, true, true, false)), (String ((Ascii
    (false, true, true, true, false, true, true, false)), (String ((Ascii
    (true, true, true, true, true, false, true, false)), (String ((Ascii
    (true, true, true, false, false, false, true, false)), (String ((Ascii
    (true, false, true, false, false, true, true, false)), (String ((Ascii
    (false, false, true, false, true, true, true, false)), (String ((Ascii
    (true, true, false, false, true, false, true, false)), (String ((Ascii
    (true, false, true, false, true, true, true, false)), (String ((Ascii
    (false, true, false, false, false, true, true, false)), (String ((Ascii
    (true, true, false, false, true, true, true, false)), (String ((Ascii
    (true, true, false, false, false, true, true, false)), (String ((Ascii
    (false, true, false, false, true, true, true, false)), (String ((Ascii
    (true, false, false, true, false, true, true, false)), (String ((Ascii
    (false, false, false, false, true, true, true, false)), (String ((Ascii
    (false, false, true, false, true, true, true, false)), (String ((Ascii
    (true, false, false, true, false, true, true, false)), (String ((Ascii
    (true, true, true, true, false, true, true, false)), (String ((Ascii
    (false, true, true, true, false, true, true, false)), (String ((Ascii
    (false, true, true, false, false, false, true, false)), (String ((Ascii
    (true, true, true, true, false, true, true, false)), (String ((Ascii
    (false, true, false, false, true, true, true, false)), (String ((Ascii
    (false, false, false, false, true, false, true, false)), (String ((Ascii
    (false, false, true, true, false, true, true, false)), (String ((Ascii
    (true, false, false, false, false, true, true, false)), (String ((Ascii
    (false, true, true, true, false, true, true, false)), (String ((Ascii
    (true, true, false, true, false, false, true, false)), (String ((Ascii
    (true, false, true, false, false, true, true, false)), (String ((Ascii
    (true, false, false, true, true, true, true, false)), (String ((Ascii
    (false, false, false, false, true, false, true, false)), (String ((Ascii
    (false, true, false, false, true, true, true, false)), (String ((Ascii
    (true, false, true, false, false, true, true, false)), (String ((Ascii
    (false, true, true, false, false, true, true, false)), (String ((Ascii
    (true, false, false, true, false, true, true, false)), (String ((Ascii
    (false, false, false, true, true, true, true, false)),
    EmptyString)))))))))))))))))))))))))))))))))))))))))))))))))))))))))))))))))))))))))))))))))))))))),
    (fun _ _ id1 _ _ _ ->
    ((subscription_GetSubscriptionForPlanKeyPrefix_ok id1),
    (subscription_GetSubscriptionForPlanKeyPrefix id1)))) :: (((String
    ((Ascii (true, true, false, false, true, true, true, false)), (String
    ((Ascii (true, false, true, false, true, true, true, false)), (String
    ((Ascii (false, true, false, false, false, true, true, false)), (String
    ((Ascii (true, true, false, false, true, true, true, false)), (String
    ((Ascii (true, true, false, false, false, true, true, false)), (String
    ((Ascii (false, true, false, false, true, true, true, false)), (String
    ((Ascii (true, false, false, true, false, true, true, false)), (String
    ((Ascii (false, false, false, false, true, true, true, false)), (String
    ((Ascii (false, false, true, false, true, true, true, false)), (String
    ((Ascii (true, false, false, true, false, true, true, false)), (String
    ((Ascii (true, true, true, true, false, true, true, false)), (String
    ((Ascii (false, true, true, true, false, true, true, false)), (String
    ((Ascii (true, true, true, true, true, false, true, false)), (String
    ((Ascii (true, true, false, false, true, false, true, false)), (String
    ((Ascii (true, false, true, false, true, true, true, false)), (String
    ((Ascii (false, true, false, false, false, true, true, false)), (String
    ((Ascii (true, true, false, false, true, true, true, false)), (String
    ((Ascii (true, true, false, false, false, true, true, false)), (String
    ((Ascii (false, true, false, false, true, true, true, false)), (String
    ((Ascii (true, false, false, true, false, true, true, false)), (String
    ((Ascii (false, false, false, false, true, true, true, false)), (String
    ((Ascii (false, false, true, false, true, true, true, false)), (String
    ((Ascii (true, false, false, true, false, true, true, false)), (String
    ((Ascii (true, true, true, true, false, true, true, false)), (String
    ((Ascii (false, true, true, true, false, true, true, false)), (String
    ((Ascii (false, true, true, false, false, false, true, false)), (String
    ((Ascii (true, true, true, true, false, true, true, false)), (String
    ((Ascii (false, true, false, false, true, true, true, false)), (String
    ((Ascii (false, false, false, false, true, false, true, false)), (String
    ((Ascii (false, false, true, true, false, true, true, false)), (String
    ((Ascii (true, false, false, false, false, true, true, false)), (String
    ((Ascii (false, true, true, true, false, true, true, false)), (String
    ((Ascii (true, true, false, true, false, false, true, false)), (String
    ((Ascii (true, false, true, false, false, true, true, false)), (String
    ((Ascii (true, false, false, true, true, true, true, false)),
    EmptyString)))))))))))))))))))))))))))))))))))))))))))))))))))))))))))))))))))))),
    (fun _ _ id1 id2 _ _ ->
    ((subscription_SubscriptionForPlanKey_ok id1 id2),
    (subscription_SubscriptionForPlanKey id1 id2)))) :: (((String ((Ascii
    (true, true, false, false, true, true, true, false)), (String ((Ascii
    (true, false, true, false, true, true, true, false)), (String ((Ascii
    (false, true, false, false, false, true, true, false)), (String ((Ascii
    (true, true, false, false, true, true, true, false)), (String ((Ascii
    (true, true, false, false, false, true, true, false)), (String ((Ascii
    (false, true, false, false, true, true, true, false)), (String ((Ascii
    (true, false, false, true, false, true, true, false)), (String ((Ascii
    (false, false, false, false, true, true, true, false)), (String ((Ascii
    (false, false, true, false, true, true, true, false)), (String ((Ascii
    (true, false, false, true, false, true, true, false)), (String ((Ascii
    (true, true, true, true, false, true, true, false)), (String ((Ascii
    (false, true, true, true, false, true, true, false)), (String ((Ascii
    (true, true, true, true, true, false, true, false)), (String ((Ascii
    (true, true, true, false, false, false, true, false)), (String ((Ascii
    (true, false, true, false, false, true, true, false)), (String ((Ascii
    (false, false, true, false, true, true, true, false)), (String ((Ascii
    (true, true, false, false, true, false, true, false)), (String ((Ascii
    (true, false, true, false, true, true, true, false)), (String ((Ascii
    (false, true, false, false, false, true, true, false)), (String ((Ascii
    (true, true, false, false, true, true, true, false)), (String ((Ascii
    (true, true, false, false, false, true, true, false)), (String ((Ascii
    (false, true, false, false, true, true, true, false)), (String ((Ascii
    (true, false, false, true, false, true, true, false)), (String ((Ascii
    (false, false, false, false, true, true, true, false)), (String ((Ascii
    (false, false, true, false, true, true, true, false)), (String ((Ascii
    (true, false, false, true, false, true, true, false)), (String ((Ascii
    (true, true, true, true, false, true, true, false)), (String ((Ascii
    (false, true, true, true, false, true, true, false)), (String ((Ascii
    (false, true, true, false, false, false, true, false)), (String ((Ascii
    (true, true, true, true, false, true, true, false)), (String ((Ascii
    (false, true, false, false, true, true, true, false)), (String ((Ascii
    (true, false, false, true, false, false, true, false)), (String ((Ascii
    (false, true, true, true, false, true, true, false)), (String ((Ascii
    (true, false, false, false, false, true, true, false)), (String ((Ascii
    (true, true, false, false, false, true, true, false)), (String ((Ascii
    (false, false, true, false, true, true, true, false)), (String ((Ascii
    (true, false, false, true, false, true, true, false)), (String ((Ascii
    (false, true, true, false, true, true, true, false)), (String ((Ascii
    (true, false, true, false, false, true, true, false)), (String ((Ascii
    (true, false, false, false, false, false, true, false)), (String ((Ascii
    (false, false, true, false, true, true, true, false)), (String ((Ascii
    (true, true, false, true, false, false, true, false)), (String ((Ascii
    (true, false, true, false, false, true, true, false)), (String ((Ascii
    (true, false, false, true, true, true, true, false)), (String ((Ascii
    (false, false, false, false, true, false, true, false)), (String ((Ascii
    (false, true, false, false, true, true, true, false)), (String ((Ascii
    (true, false, true, false, false, true, true, false)), (String ((Ascii
    (false, true, true, false, false, true, true, false)), (String ((Ascii
    (true, false, false, true, false, true, true, false)), (String ((Ascii
    (false, false, false, true, true, true, true, false)),
    EmptyString)))))))))))))))))))))))))))))))))))))))))))))))))))))))))))))))))))))))))))))))))))))))))))))))))))),
    (fun _ _ _ _ t0 _ ->
    ((subscription_GetSubscriptionForInactiveAtKeyPrefix_ok t0),
    (subscription_GetSubscriptionForInactiveAtKeyPrefix t0)))) :: (((String
    ((Ascii (true, true, false, false, true, true, true, false)), (String
    ((Ascii (true, false, true, false, true, true, true, false)), (String
    ((Ascii (false, true, false, false, false, true, true, false)), (String
    ((Ascii (true, true, false, false, true, true, true, false)), (String
    ((Ascii (true, true, false, false, false, true, true, false)), (String
    ((Ascii (false, true, false, false, true, true, true, false)), (String
    ((Ascii (true, false, false, true, false, true, true, false)), (String
    ((Ascii (false, false, false, false, true, true, true, false)), (String
    ((Ascii (false, false, true, false, true, true, true, false)), (String
    ((Ascii (true, false, false, true, false, true, true, false)), (String
    ((Ascii (true, true, true, true, false, true, true, false)), (String
    ((Ascii (false, true, true, true, false, true, true, false)), (String
    ((Ascii (true, true, true, true, true, false, true, false)), (String
    ((Ascii (true, true, false, false, true, false, true, false)), (String
    ((Ascii (true, false, true, false, true, true, true, false)), (String
    ((Ascii (false, true, false, false, false, true, true, false)), (String
    ((Ascii (true, true, false, false, true, true, true, false)), (String
    ((Ascii (true, true, false, false, false, true, true, false)), (String
    ((Ascii (false, true, false, false, true, true, true, false)), (String
    ((Ascii (true, false, false, true, false, true, true, false)), (String
    ((Ascii (false, false, false, false, true, true, true, false)), (String
    ((Ascii (false, false, true, false, true, true, true, false)), (String
    ((Ascii (true, false, false, true, false, true, true, false)), (String
    ((Ascii (true, true, true, true, false, true, true, false)), (String
    ((Ascii (false, true, true, true, false, true, true, false)), (String
    ((Ascii (false, true, true, false, false, false, true, false)), (String
    ((Ascii (true, true, true, true, false, true, true, false)), (String
    ((Ascii (false, true, false, false, true, true, true, false)), (String
    ((Ascii (true, false, false, true, false, false, true, false)), (String
    ((Ascii (false, true, true, true, false, true, true, false)), (String
    ((Ascii (true, false, false, false, false, true, true, false)), (String
    ((Ascii (true, true, false, false, false, true, true, false)), (String
    ((Ascii (false, false, true, false, true, true, true, false)), (String
    ((Ascii (true, false, false, true, false, true, true, false)), (String
    ((Ascii (false, true, true, false, true, true, true, false)), (String
    ((Ascii (true, false, true, false, false, true, true, false)), (String
    ((Ascii (true, false, false, false, false, false, true, false)), (String
    ((Ascii (false, false, true, false, true, true, true, false)), (String
    ((Ascii (true, true, false, true, false, false, true, false)), (String
    ((Ascii (true, false, true, false, false, true, true, false)), (String
    ((Ascii (true, false, false, true, true, true, true, false)),
    EmptyString)))))))))))))))))))))))))))))))))))))))))))))))))))))))))))))))))))))))))))))))))),
    (fun _ _ id1 _ t0 _ ->
    ((subscription_SubscriptionForInactiveAtKey_ok t0 id1),
    (subscription_SubscriptionForInactiveAtKey t0 id1)))) :: (((String
    ((Ascii (true, true, false, false, true, true, true, false)), (String
    ((Ascii (true, false, true, false, true, true, true, false)), (String
    ((Ascii (false, true, false, false, false, true, true, false)), (String
    ((Ascii (true, true, false, false, true, true, true, false)), (String
    ((Ascii (true, true, false, false, false, true, true, false)), (String
    ((Ascii (false, true, false, false, true, true, true, false)), (String
    ((Ascii (true, false, false, true, false, true, true, false)), (String
    ((Ascii (false, false, false, false, true, true, true, false)), (String
    ((Ascii (false, false, true, false, true, true, true, false)), (String
    ((Ascii (true, false, false, true, false, true, true, false)), (String
    ((Ascii (true, true, true, true, false, true, true, false)), (String
    ((Ascii (false, true, true, true, false, true, true, false)), (String
    ((Ascii (true, true, true, true, true, false, true, false)), (String
    ((Ascii (true, true, true, false, false, false, true, false)), (String
    ((Ascii (true, false, true, false, false, true, true, false)), (String
    ((Ascii (false, false, true, false, true, true, true, false)), (String
    ((Ascii (true, false, false, false, false, false, true, false)), (String
    ((Ascii (false, false, true, true, false, true, true, false)), (String
    ((Ascii (false, false, true, true, false, true, true, false)), (String
    ((Ascii (true, true, true, true, false, true, true, false)), (String
    ((Ascii (true, true, false, false, false, true, true, false)), (String
    ((Ascii (true, false, false, false, false, true, true, false)), (String
    ((Ascii (false, false, true, false, true, true, true, false)), (String
    ((Ascii (true, false, false, true, false, true, true, false)), (String
    ((Ascii (true, true, true, true, false, true, true, false)), (String
    ((Ascii (false, true, true, true, false, true, true, false)), (String
    ((Ascii (false, true, true, false, false, false, true, false)), (String
    ((Ascii (true, true, true, true, false, true, true, false)), (String
    ((Ascii (false, true, false, false, true, true, true, false)), (String
    ((Ascii (true, true, false, false, true, false, true, false)), (String
    ((Ascii (true, false, true, false, true, true, true, false)), (String
    ((Ascii (false, true, false, false, false, true, true, false)), (String
    ((Ascii (true, true, false, false, true, true, true, false)), (String
    ((Ascii (true, true, false, false, false, true, true, false)), (String
    ((Ascii (false, true, false, false, true, true, true, false)), (String
    ((Ascii (true, false, false, true, false, true, true, false)), (String
    ((Ascii (false, false, false, false, true, true, true, false)), (String
    ((Ascii (false, false, true, false, true, true, true, false)), (String
    ((Ascii (true, false, false, true, false, true, true, false)), (String
    ((Ascii (true, true, true, true, false, true, true, false)), (String
    ((Ascii (false, true, true, true, false, true, true, false)), (String
    ((Ascii (true, true, false, true, false, false, true, false)), (String
    ((Ascii (true, false, true, false, false, true, true, false)), (String
    ((Ascii (true, false, false, true, true, true, true, false)), (String
    ((Ascii (false, false, false, false, true, false, true, false)), (String
    ((Ascii (false, true, false, false, true, true, true, false)), (String
    ((Ascii (true, false, true, false, false, true, true, false)), (String
    ((Ascii (false, true, true, false, false, true, true, false)), (String
    ((Ascii (true, false, false, true, false, true, true, false)), (String
    ((Ascii (false, false, false, true, true, true, true, false)),
    EmptyString)))))))))))))))))))))))))))))))))))))))))))))))))))))))))))))))))))))))))))))))))))))))))))))))))))),
    (fun _ _ id1 _ _ _ ->
    ((subscription_GetAllocationForSubscriptionKeyPrefix_ok id1),
    (subscription_GetAllocationForSubscriptionKeyPrefix id1)))) :: (((String
    ((Ascii (true, true, false, false, true, true, true, false)), (String
    ((Ascii (true, false, true, false, true, true, true, false)), (String
    ((Ascii (false, true, false, false, false, true, true, false)), (String
    ((Ascii (true, true, false, false, true, true, true, false)), (String
    ((Ascii (true, true, false, false, false, true, true, false)), (String
    ((Ascii (false, true, false, false, true, true, true, false)), (String
    ((Ascii (true, false, false, true, false, true, true, false)), (String
    ((Ascii (false, false, false, false, true, true, true, false)), (String
    ((Ascii (false, false, true, false, true, true, true, false)), (String
    ((Ascii (true, false, false, true, false, true, true, false)), (String
    ((Ascii (true, true, true, true, false, true, true, false)), (String
    ((Ascii (false, true, true, true, false, true, true, false)), (String
    ((Ascii (true, true, true, true, true, false, true, false)), (String
    ((Ascii (true, false, false, false, false, false, true, false)), (String
    ((Ascii (false, false, true, true, false, true, true, false)), (String
    ((Ascii (false, false, true, true, false, true, true, false)), (String
    ((Ascii (true, true, true, true, false, true, true, false)), (String
    ((Ascii (true, true, false, false, false, true, true, false)), (String
    ((Ascii (true, false, false, false, false, true, true, false)), (String
    ((Ascii (false, false, true, false, true, true, true, false)), (String
    ((Ascii (true, false, false, true, false, true, true, false)), (String
    ((Ascii (true, true, true, true, false, true, true, false)), (String
    ((Ascii (false, true, true, true, false, true, true, false)), (String
    ((Ascii (true, true, false, true, false, false, true, false)), (String
    ((Ascii (true, false, true, false, false, true, true, false)), (String
    ((Ascii (true, false, false, true, true, true, true, false)),
    EmptyString)))))))))))))))))))))))))))))))))))))))))))))))))))),
    (fun a1 _ id1 _ _ _ -> ((subscription_AllocationKey_ok id1 a1),
    (subscription_AllocationKey id1 a1)))) :: (((String ((Ascii (true, true,
    false, false, true, true, true, false)), (String ((Ascii (true, false,
    true, false, true, true, true, false)), (String ((Ascii (false, true,
    false, false, false, true, true, false)), (String ((Ascii (true, true,
    false, false, true, true, true, false)), (String ((Ascii (true, true,
    false, false, false, true, true, false)), (String ((Ascii (false, true,
    false, false, true, true, true, false)), (String ((Ascii (true, false,
    false, true, false, true, true, false)), (String ((Ascii (false, false,
    false, false, true, true, true, false)), (String ((Ascii (false, false,
    true, false, true, true, true, false)), (String ((Ascii (true, false,
    false, true, false, true, true, false)), (String ((Ascii (true, true,
    true, true, false, true, true, false)), (String ((Ascii (false, true,
    true, true, false, true, true, false)), (String ((Ascii (true, true,
    true, true, true, false, true, false)), (String ((Ascii (false, false,
    false, false, true, false, true, false)), (String ((Ascii (true, false,
    false, false, false, true, true, false)), (String ((Ascii (true, false,
    false, true, true, true, true, false)), (String ((Ascii (true, true,
    true, true, false, true, true, false)), (String ((Ascii (true, false,
    true, false, true, true, true, false)), (String ((Ascii (false, false,
    true, false, true, true, true, false)), (String ((Ascii (true, true,
    false, true, false, false, true, false)), (String ((Ascii (true, false,
    true, false, false, true, true, false)), (String ((Ascii (true, false,
    false, true, true, true, true, false)),
    EmptyString)))))))))))))))))))))))))))))))))))))))))))),
    (fun _ _ id1 _ _ _ -> ((subscription_PayoutKey_ok id1),
    (subscription_PayoutKey id1)))) :: (((String ((Ascii (true, true, false,
    false, true, true, true, false)), (String ((Ascii (true, false, true,
    false, true, true, true, false)), (String ((Ascii (false, true, false,
    false, false, true, true, false)), (String ((Ascii (true, true, false,
    false, true, true, true, false)), (String ((Ascii (true, true, false,
    false, false, true, true, false)), (String ((Ascii (false, true, false,
    false, true, true, true, false)), (String ((Ascii (true, false, false,
    true, false, true, true, false)), (String ((Ascii (false, false, false,
    false, true, true, true, false)), (String ((Ascii (false, false, true,
    false, true, true, true, false)), (String ((Ascii (true, false, false,
    true, false, true, true, false)), (String ((Ascii (true, true, true,
    true, false, true, true, false)), (String ((Ascii (false, true, true,
    true, false, true, true, false)), (String ((Ascii (true, true, true,
    true, true, false, true, false)), (String ((Ascii (true, true, true,
    false, false, false, true, false)), (String ((Ascii (true, false, true,
    false, false, true, true, false)), (String ((Ascii (false, false, true,
    false, true, true, true, false)), (String ((Ascii (false, false, false,
    false, true, false, true, false)), (String ((Ascii (true, false, false,
    false, false, true, true, false)), (String ((Ascii (true, false, false,
    true, true, true, true, false)), (String ((Ascii (true, true, true, true,
    false, true, true, false)), (String ((Ascii (true, false, true, false,
    true, true, true, false)), (String ((Ascii (false, false, true, false,
    true, true, true, false)), (String ((Ascii (false, true, true, false,
    false, false, true, false)), (String ((Ascii (true, true, true, true,
    false, true, true, false)), (String ((Ascii (false, true, false, false,
    true, true, true, false)), (String ((Ascii (false, true, true, true,
    false, false, true, false)), (String ((Ascii (true, false, true, false,
    false, true, true, false)), (String ((Ascii (false, false, false, true,
    true, true, true, false)), (String ((Ascii (false, false, true, false,
    true, true, true, false)), (String ((Ascii (true, false, false, false,
    false, false, true, false)), (String ((Ascii (false, false, true, false,
    true, true, true, false)), (String ((Ascii (true, true, false, true,
    false, false, true, false)), (String ((Ascii (true, false, true, false,
    false, true, true, false)), (String ((Ascii (true, false, false, true,
    true, true, true, false)), (String ((Ascii (false, false, false, false,
    true, false, true, false)), (String ((Ascii (false, true, false, false,
    true, true, true, false)), (String ((Ascii (true, false, true, false,
    false, true, true, false)), (String ((Ascii (false, true, true, false,
    false, true, true, false)), (String ((Ascii (true, false, false, true,
    false, true, true, false)), (String ((Ascii (false, false, false, true,
    true, true, true, false)),
    EmptyString)))))))))))))))))))))))))))))))))))))))))))))))))))))))))))))))))))))))))))))))),
    (fun _ _ _ _ t0 _ -> ((subscription_GetPayoutForNextAtKeyPrefix_ok t0),
    (subscription_GetPayoutForNextAtKeyPrefix t0)))) :: (((String ((Ascii
    (true, true, false, false, true, true, true, false)), (String ((Ascii
    (true, false, true, false, true, true, true, false)), (String ((Ascii
    (false, true, false, false, false, true, true, false)), (String ((Ascii
    (true, true, false, false, true, true, true, false)), (String ((Ascii
    (true, true, false, false, false, true, true, false)), (String ((Ascii
    (false, true, false, false, true, true, true, false)), (String ((Ascii
    (true, false, false, true, false, true, true, false)), (String ((Ascii
    (false, false, false, false, true, true, true, false)), (String ((Ascii
    (false, false, true, false, true, true, true, false)), (String ((Ascii
    (true, false, false, true, false, true, true, false)), (String ((Ascii
    (true, true, true, true, false, true, true, false)), (String ((Ascii
    (false, true, true, true, false, true, true, false)), (String ((Ascii
    (true, true, true, true, true, false, true, false)), (String ((Ascii
    (false, false, false, false, true, false, true, false)), (String ((Ascii
    (true, false, false, false, false, true, true, false)), (String ((Ascii
    (true, false, false, true, true, true, true, false)), (String ((Ascii
    (true, true, true, true, false, true, true, false)), (String ((Ascii
    (true, false, true, false, true, true, true, false)), (String ((Ascii
    (false, false, true, false, true, true, true, false)), (String ((Ascii
    (false, true, true, false, false, false, true, false)), (String ((Ascii
    (true, true, true, true, false, true, true, false)), (String ((Ascii
    (false, true, false, false, true, true, true, false)), (String ((Ascii
    (false, true, true, true, false, false, true, false)), (String ((Ascii
    (true, false, true, false, false, true, true, false)), (String ((Ascii
    (false, false, false, true, true, true, true, false)), (String ((Ascii
    (false, false, true, false, true, true, true, false)), (String ((Ascii
    (true, false, false, false, false, false, true, false)), (String ((Ascii
    (false, false, true, false, true, true, true, false)), (String ((Ascii
    (true, true, false, true, false, false, true, false)), (String ((Ascii
    (true, false, true, false, false, true, true, false)), (String ((Ascii
    (true, false, false, true, true, true, true, false)),
    EmptyString)))))))))))))))))))))))))))))))))))))))))))))))))))))))))))))),
    (fun _ _ id1 _ t0 _ -> ((subscription_PayoutForNextAtKey_ok t0 id1),
    (subscription_PayoutForNextAtKey t0 id1)))) :: (((String ((Ascii (true,
    true, false, false, true, true, true, false)), (String ((Ascii (true,
    false, true, false, true, true, true, false)), (String ((Ascii (false,
    true, false, false, false, true, true, false)), (String ((Ascii (true,
    true, false, false, true, true, true, false)), (String ((Ascii (true,
    true, false, false, false, true, true, false)), (String ((Ascii (false,
    true, false, false, true, true, true, false)), (String ((Ascii (true,
    false, false, true, false, true, true, false)), (String ((Ascii (false,
    false, false, false, true, true, true, false)), (String ((Ascii (false,
    false, true, false, true, true, true, false)), (String ((Ascii (true,
    false, false, true, false, true, true, false)), (String ((Ascii (true,
    true, true, true, false, true, true, false)), (String ((Ascii (false,
    true, true, true, false, true, true, false)), (String ((Ascii (true,
    true, true, true, true, false, true, false)), (String ((Ascii (true,
    true, true, false, false, false, true, false)), (String ((Ascii (true,
    false, true, false, false, true, true, false)), (String ((Ascii (false,
    false, true, false, true, true, true, false)), (String ((Ascii (false,
    false, false, false, true, false, true, false)), (String ((Ascii (true,
    false, false, false, false, true, true, false)), (String ((Ascii (true,
    false, false, true, true, true, true, false)), (String ((Ascii (true,
    true, true, true, false, true, true, false)), (String ((Ascii (true,
    false, true, false, true, true, true, false)), (String ((Ascii (false,
    false, true, false, true, true, true, false)), (String ((Ascii (false,
    true, true, false, false, false, true, false)), (String ((Ascii (true,
    true, true, true, false, true, true, false)), (String ((Ascii (false,
    true, false, false, true, true, true, false)), (String ((Ascii (true,
    false, false, false, false, false, true, false)), (String ((Ascii (true,
    true, false, false, false, true, true, false)), (String ((Ascii (true,
    true, false, false, false, true, true, false)), (String ((Ascii (true,
    true, true, true, false, true, true, false)), (String ((Ascii (true,
    false, true, false, true, true, true, false)), (String ((Ascii (false,
    true, true, true, false, true, true, false)), (String ((Ascii (false,
    false, true, false, true, true, true, false)), (String ((Ascii (true,
    true, false, true, false, false, true, false)), (String ((Ascii (true,
    false, true, false, false, true, true, false)), (String ((Ascii (true,
    false, false, true, true, true, true, false)), (String ((Ascii (false,
    false, false, false, true, false, true, false)), (String ((Ascii (false,
    true, false, false, true, true, true, false)), (String ((Ascii (true,
    false, true, false, false, true, true, false)), (String ((Ascii (false,
    true, true, false, false, true, true, false)), (String ((Ascii (true,
    false, false, true, false, true, true, false)), (String ((Ascii (false,
    false, false, true, true, true, true, false)),
    EmptyString)))))))))))))))))))))))))))))))))))))))))))))))))))))))))))))))))))))))))))))))))),
    (fun a1 _ _ _ _ _ -> ((subscription_GetPayoutForAccountKeyPrefix_ok a1),
    (subscription_GetPayoutForAccountKeyPrefix a1)))) :: (((String ((Ascii
    (true, true, false, false, true, true, true, false)), (String ((Ascii
    (true, false, true, false, true, true, true, false)), (String ((Ascii
    (false, true, false, false, false, true, true, false)), (String ((Ascii
    (true, true, false, false, true, true, true, false)), (String ((Ascii
    (true, true, false, false, false, true, true, false)), (String ((Ascii
    (false, true, false, false, true, true, true, false)), (String ((Ascii
    (true, false, false, true, false, true, true, false)), (String ((Ascii
    (false, false, false, false, true, true, true, false)), (String ((Ascii
    (false, false, true, false, true, true, true, false)), (String ((Ascii
    (true, false, false, true, false, true, true, false)), (String ((Ascii
    (true, true, true, true, false, true, true, false)), (String ((Ascii
    (false, true, true, true, false, true, true, false)), (String ((Ascii
    (true, true, true, true, true, false, true, false)), (String ((Ascii
    (false, false, false, false, true, false, true, false)), (String ((Ascii
    (true, false, false, false, false, true, true, false)), (String ((Ascii
    (true, false, false, true, true, true, true, false)), (String ((Ascii
    (true, true, true, true, false, true, true, false)), (String ((Ascii
    (true, false, true, false, true, true, true, false)), (String ((Ascii
    (false, false, true, false, true, true, true, false)), (String ((Ascii
    (false, true, true, false, false, false, true, false)), (String ((Ascii
    (true, true, true, true, false, true, true, false)), (String ((Ascii
    (false, true, false, false, true, true, true, false)), (String ((Ascii
    (true, false, false, false, false, false, true, false)), (String ((Ascii
    (true, true, false, false, false, true, true, false)), (String ((Ascii
    (true, true, false, false, false, true, true, false)), (String ((Ascii
    (true, true, true, true, false, true, true, false)), (String ((Ascii
    (true, false, true, false, true, true, true, false)), (String ((Ascii
    (false, true, true, true, false, true, true, false)), (String ((Ascii
    (false, false, true, false, true, true, true, false)), (String ((Ascii
    (true, true, false, true, false, false, true, false)), (String ((Ascii
    (true, false, true, false, false, true, true, false)), (String ((Ascii
    (true, false, false, true, true, true, true, false)),
    EmptyString)))))))))))))))))))))))))))))))))))))))))))))))))))))))))))))))),
    (fun a1 _ id1 _ _ _ -> ((subscription_PayoutForAccountKey_ok a1 id1),
    (subscription_PayoutForAccountKey a1 id1)))) :: (((String ((Ascii (true,
    true, false, false, true, true, true, false)), (String ((Ascii (true,
    false, true, false, true, true, true, false)), (String ((Ascii (false,
    true, false, false, false, true, true, false)), (String ((Ascii (true,
    true, false, false, true, true, true, false)), (String ((Ascii (true,
    true, false, false, false, true, true, false)), (String ((Ascii (false,
    true, false, false, true, true, true, false)), (String ((Ascii (true,
    false, false, true, false, true, true, false)), (String ((Ascii (false,
    false, false, false, true, true, true, false)), (String ((Ascii (false,
    false, true, false, true, true, true, false)), (String ((Ascii (true,
    false, false, true, false, true, true, false)), (String ((Ascii (true,
    true, true, true, false, true, true, false)), (String ((Ascii (false,
    true, true, true, false, true, true, false)), (String ((Ascii (true,
    true, true, true, true, false, true, false)), (String ((Ascii (true,
    true, true, false, false, false, true, false)), (String ((Ascii (true,
    false, true, false, false, true, true, false)), (String ((Ascii (false,
    false, true, false, true, true, true, false)), (String ((Ascii (false,
    false, false, false, true, false, true, false)), (String ((Ascii (true,
    false, false, false, false, true, true, false)), (String ((Ascii (true,
    false, false, true, true, true, true, false)), (String ((Ascii (true,
    true, true, true, false, true, true, false)), (String ((Ascii (true,
    false, true, false, true, true, true, false)), (String ((Ascii (false,
    false, true, false, true, true, true, false)), (String ((Ascii (false,
    true, true, false, false, false, true, false)), (String ((Ascii (true,
    true, true, true, false, true, true, false)), (String ((Ascii (false,
    true, false, false, true, true, true, false)), (String ((Ascii (false,
    true, true, true, false, false, true, false)), (String ((Ascii (true,
    true, true, true, false, true, true, false)), (String ((Ascii (false,
    false, true, false, false, true, true, false)), (String ((Ascii (true,
    false, true, false, false, true, true, false)), (String ((Ascii (true,
    true, false, true, false, false, true, false)), (String ((Ascii (true,
    false, true, false, false, true, true, false)), (String ((Ascii (true,
    false, false, true, true, true, true, false)), (String ((Ascii (false,
    false, false, false, true, false, true, false)), (String ((Ascii (false,
    true, false, false, true, true, true, false)), (String ((Ascii (true,
    false, true, false, false, true, true, false)), (String ((Ascii (false,
    true, true, false, false, true, true, false)), (String ((Ascii (true,
    false, false, true, false, true, true, false)), (String ((Ascii (false,
    false, false, true, true, true, true, false)),
    EmptyString)))))))))))))))))))))))))))))))))))))))))))))))))))))))))))))))))))))))))))),
    (fun a1 _ _ _ _ _ -> ((subscription_GetPayoutForNodeKeyPrefix_ok a1),
    (subscription_GetPayoutForNodeKeyPrefix a1)))) :: (((String ((Ascii
    (true, true, false, false, true, true, true, false)), (String ((Ascii
    (true, false, true, false, true, true, true, false)), (String ((Ascii
    (false, true, false, false, false, true, true, false)), (String ((Ascii
    (true, true, false, false, true, true, true, false)), (String ((Ascii
    (true, true, false, false, false, true, true, false)), (String ((Ascii
    (false, true, false, false, true, true, true, false)), (String ((Ascii
    (true, false, false, true, false, true, true, false)), (String ((Ascii
    (false, false, false, false, true, true, true, false)), (String ((Ascii
    (false, false, true, false, true, true, true, false)), (String ((Ascii
    (true, false, false, true, false, true, true, false)), (String ((Ascii
    (true, true, true, true, false, true, true, false)), (String ((Ascii
    (false, true, true, true, false, true, true, false)), (String ((Ascii
    (true, true, true, true, true, false, true, false)), (String ((Ascii
    (false, false, false, false, true, false, true, false)), (String ((Ascii
    (true, false, false, false, false, true, true, false)), (String ((Ascii
    (true, false, false, true, true, true, true, false)), (String ((Ascii
    (true, true, true, true, false, true, true, false)), (String ((Ascii
    (true, false, true, false, true, true, true, false)), (String ((Ascii
    (false, false, true, false, true, true, true, false)), (String ((Ascii
    (false, true, true, false, false, false, true, false)), (String ((Ascii
    (true, true, true, true, false, true, true, false)), (String ((Ascii
    (false, true, false, false, true, true, true, false)), (String ((Ascii
    (false, true, true, true, false, false, true, false)), (String ((Ascii
    (true, true, true, true, false, true, true, false)), (String ((Ascii
    (false, false, true, false, false, true, true, false)), (String ((Ascii
    (true, false, true, false, false, true, true, false)), (String ((Ascii
    (true, true, false, true, false, false, true, false)), (String ((Ascii
    (true, false, true, false, false, true, true, false)), (String ((Ascii
    (true, false, false, true, true, true, true, false)),
    EmptyString)))))))))))))))))))))))))))))))))))))))))))))))))))))))))),
    (fun a1 _ id1 _ _ _ -> ((subscription_PayoutForNodeKey_ok a1 id1),
    (subscription_PayoutForNodeKey a1 id1)))) :: (((String ((Ascii (true,
    true, false, false, true, true, true, false)), (String ((Ascii (true,
    false, true, false, true, true, true, false)), (String ((Ascii (false,
    true, false, false, false, true, true, false)), (String ((Ascii (true,
    true, false, false, true, true, true, false)), (String ((Ascii (true,
    true, false, false, false, true, true, false)), (String ((Ascii (false,
    true, false, false, true, true, true, false)), (String ((Ascii (true,
    false, false, true, false, true, true, false)), (String ((Ascii (false,
    false, false, false, true, true, true, false)), (String ((Ascii (false,
    false, true, false, true, true, true, false)), (String ((Ascii (true,
    false, false, true, false, true, true, false)), (String ((Ascii (true,
    true, true, true, false, true, true, false)), (String ((Ascii (false,
    true, true, true, false, true, true, false)), (String ((Ascii (true,
    true, true, true, true, false, true, false)), (String ((Ascii (true,
    true, true, false, false, false, true, false)), (String ((Ascii (true,
    false, true, false, false, true, true, false)), (String ((Ascii (false,
    false, true, false, true, true, true, false)), (String ((Ascii (false,
    false, false, false, true, false, true, false)), (String ((Ascii (true,
    false, false, false, false, true, true, false)), (String ((Ascii (true,
    false, false, true, true, true, true, false)), (String ((Ascii (true,
    true, true, true, false, true, true, false)), (String ((Ascii (true,
    false, true, false, true, true, true, false)), (String ((Ascii (false,
    false, true, false, true, true, true, false)), (String ((Ascii (false,
    true, true, false, false, false, true, false)), (String ((Ascii (true,
    true, true, true, false, true, true, false)), (String ((Ascii (false,
    true, false, false, true, true, true, false)), (String ((Ascii (true,
    false, false, false, false, false, true, false)), (String ((Ascii (true,
    true, false, false, false, true, true, false)), (String ((Ascii (true,
    true, false, false, false, true, true, false)), (String ((Ascii (true,
    true, true, true, false, true, true, false)), (String ((Ascii (true,
    false, true, false, true, true, true, false)), (String ((Ascii (false,
    true, true, true, false, true, true, false)), (String ((Ascii (false,
    false, true, false, true, true, true, false)), (String ((Ascii (false,
    true, false, false, false, false, true, false)), (String ((Ascii (true,
    false, false, true, true, true, true, false)), (String ((Ascii (false,
    true, true, true, false, false, true, false)), (String ((Ascii (true,
    true, true, true, false, true, true, false)), (String ((Ascii (false,
    false, true, false, false, true, true, false)), (String ((Ascii (true,
    false, true, false, false, true, true, false)), (String ((Ascii (true,
    true, false, true, false, false, true, false)), (String ((Ascii (true,
    false, true, false, false, true, true, false)), (String ((Ascii (true,
    false, false, true, true, true, true, false)), (String ((Ascii (false,
    false, false, false, true, false, true, false)), (String ((Ascii (false,
    true, false, false, true, true, true, false)), (String ((Ascii (true,
    false, true, false, false, true, true, false)), (String ((Ascii (false,
    true, true, false, false, true, true, false)), (String ((Ascii (true,
    false, false, true, false, true, true, false)), (String ((Ascii (false,
    false, false, true, true, true, true, false)),
    EmptyString)))))))))))))))))))))))))))))))))))))))))))))))))))))))))))))))))))))))))))))))))))))))))))))),
    (fun a1 a2 _ _ _ _ ->
    ((subscription_GetPayoutForAccountByNodeKeyPrefix_ok a1 a2),
    (subscription_GetPayoutForAccountByNodeKeyPrefix a1 a2)))) :: (((String
    ((Ascii (true, true, false, false, true, true, true, false)), (String
    ((Ascii (true, false, true, false, true, true, true, false)), (String
    ((Ascii (false, true, false, false, false, true, true, false)), (String
    ((Ascii (true, true, false, false, true, true, true, false)), (String
    ((Ascii (true, true, false, false, false, true, true, false)), (String
    ((Ascii (false, true, false, false, true, true, true, false)), (String
    ((Ascii (true, false, false, true, false, true, true, false)), (String
    ((Ascii (false, false, false, false, true, true, true, false)), (String
    ((Ascii (false, false, true, false, true, true, true, false)), (String
    ((Ascii (true, false, false, true, false, true, true, false)), (String
    ((Ascii (true, true, true, true, false, true, true, false)), (String
    ((Ascii (false, true, true, true, false, true, true, false)), (String
    ((Ascii (true, true, true, true, true, false, true, false)), (String
    ((Ascii (false, false, false, false, true, false, true, false)), (String
    ((Ascii (true, false, false, false, false, true, true, false)), (String
    ((Ascii (true, false, false, true, true, true, true, false)), (String
    ((Ascii (true, true, true, true, false, true, true, false)), (String
    ((Ascii (true, false, true, false, true, true, true, false)), (String
    ((Ascii (false, false, true, false, true, true, true, false)), (String
    ((Ascii (false, true, true, false, false, false, true, false)), (String
    ((Ascii (true, true, true, true, false, true, true, false)), (String
    ((Ascii (false, true, false, false, true, true, true, false)), (String
    ((Ascii (true, false, false, false, false, false, true, false)), (String
    ((Ascii (true, true, false, false, false, true, true, false)), (String
    ((Ascii (true, true, false, false, false, true, true, false)), (String
    ((Ascii (true, true, true, true, false, true, true, false)), (String
    ((Ascii (true, false, true, false, true, true, true, false)), (String
    ((Ascii (false, true, true, true, false, true, true, false)), (String
    ((Ascii (false, false, true, false, true, true, true, false)), (String
    ((Ascii (false, true, false, false, false, false, true, false)), (String
    ((Ascii (true, false, false, true, true, true, true, false)), (String
    ((Ascii (false, true, true, true, false, false, true, false)), (String
    ((Ascii (true, true, true, true, false, true, true, false)), (String
    ((Ascii (false, false, true, false, false, true, true, false)), (String
    ((Ascii (true, false, true, false, false, true, true, false)), (String
    ((Ascii (true, true, false, true, false, false, true, false)), (String
    ((Ascii (true, false, true, false, false, true, true, false)), (String
    ((Ascii (true, false, false, true, true, true, true, false)),
    EmptyString)))))))))))))))))))))))))))))))))))))))))))))))))))))))))))))))))))))))))))),
    (fun a1 a2 id1 _ _ _ ->
    ((subscription_PayoutForAccountByNodeKey_ok a1 a2 id1),
    (subscription_PayoutForAccountByNodeKey a1 a2 id1)))) :: (((String
    ((Ascii (true, true, false, false, true, true, true, false)), (String
    ((Ascii (true, true, true, false, true, true, true, false)), (String
    ((Ascii (true, false, false, false, false, true, true, false)), (String
    ((Ascii (false, false, false, false, true, true, true, false)), (String
    ((Ascii (true, true, true, true, true, false, true, false)), (String
    ((Ascii (true, true, false, false, true, false, true, false)), (String
    ((Ascii (true, true, true, false, true, true, true, false)), (String
    ((Ascii (true, false, false, false, false, true, true, false)), (String
    ((Ascii (false, false, false, false, true, true, true, false)), (String
    ((Ascii (true, true, false, true, false, false, true, false)), (String
    ((Ascii (true, false, true, false, false, true, true, false)), (String
    ((Ascii (true, false, false, true, true, true, true, false)),
    EmptyString)))))))))))))))))))))))), (fun _ _ _ _ _ h ->
    ((swap_SwapKey_ok h),
    (swap_SwapKey h)))) :: [])))))))))))))))))))))))))))))))))))))))))))))

(** val gen_dec_u64_table : (string * (bytes -> n res)) list **)

let gen_dec_u64_table =
  ((String ((Ascii (false, false, false, false, true, true, true, false)),
    (String ((Ascii (false, false, true, true, false, true, true, false)),
    (String ((Ascii (true, false, false, false, false, true, true, false)),
    (String ((Ascii (false, true, true, true, false, true, true, false)),
    (String ((Ascii (true, true, true, true, true, false, true, false)),
    (String ((Ascii (true, false, false, true, false, false, true, false)),
    (String ((Ascii (false, false, true, false, false, false, true, false)),
    (String ((Ascii (false, true, true, false, false, false, true, false)),
    (String ((Ascii (false, true, false, false, true, true, true, false)),
    (String ((Ascii (true, true, true, true, false, true, true, false)),
    (String ((Ascii (true, false, true, true, false, true, true, false)),
    (String ((Ascii (false, false, false, false, true, false, true, false)),
    (String ((Ascii (false, false, true, true, false, true, true, false)),
    (String ((Ascii (true, false, false, false, false, true, true, false)),
    (String ((Ascii (false, true, true, true, false, true, true, false)),
    (String ((Ascii (false, true, true, false, false, false, true, false)),
    (String ((Ascii (true, true, true, true, false, true, true, false)),
    (String ((Ascii (false, true, false, false, true, true, true, false)),
    (String ((Ascii (false, false, false, false, true, false, true, false)),
    (String ((Ascii (false, true, false, false, true, true, true, false)),
    (String ((Ascii (true, true, true, true, false, true, true, false)),
    (String ((Ascii (false, true, true, false, true, true, true, false)),
    (String ((Ascii (true, false, false, true, false, true, true, false)),
    (String ((Ascii (false, false, true, false, false, true, true, false)),
    (String ((Ascii (true, false, true, false, false, true, true, false)),
    (String ((Ascii (false, true, false, false, true, true, true, false)),
    (String ((Ascii (true, true, false, true, false, false, true, false)),
    (String ((Ascii (true, false, true, false, false, true, true, false)),
    (String ((Ascii (true, false, false, true, true, true, true, false)),
    EmptyString)))))))))))))))))))))))))))))))))))))))))))))))))))))))))),
    plan_IDFromPlanForProviderKey) :: (((String ((Ascii (true, true, false,
    false, true, true, true, false)), (String ((Ascii (true, false, true,
    false, false, true, true, false)), (String ((Ascii (true, true, false,
    false, true, true, true, false)), (String ((Ascii (true, true, false,
    false, true, true, true, false)), (String ((Ascii (true, false, false,
    true, false, true, true, false)), (String ((Ascii (true, true, true,
    true, false, true, true, false)), (String ((Ascii (false, true, true,
    true, false, true, true, false)), (String ((Ascii (true, true, true,
    true, true, false, true, false)), (String ((Ascii (true, false, false,
    true, false, false, true, false)), (String ((Ascii (false, false, true,
    false, false, false, true, false)), (String ((Ascii (false, true, true,
    false, false, false, true, false)), (String ((Ascii (false, true, false,
    false, true, true, true, false)), (String ((Ascii (true, true, true,
    true, false, true, true, false)), (String ((Ascii (true, false, true,
    true, false, true, true, false)), (String ((Ascii (true, true, false,
    false, true, false, true, false)), (String ((Ascii (true, false, true,
    false, false, true, true, false)), (String ((Ascii (true, true, false,
    false, true, true, true, false)), (String ((Ascii (true, true, false,
    false, true, true, true, false)), (String ((Ascii (true, false, false,
    true, false, true, true, false)), (String ((Ascii (true, true, true,
    true, false, true, true, false)), (String ((Ascii (false, true, true,
    true, false, true, true, false)), (String ((Ascii (false, true, true,
    false, false, false, true, false)), (String ((Ascii (true, true, true,
    true, false, true, true, false)), (String ((Ascii (false, true, false,
    false, true, true, true, false)), (String ((Ascii (true, false, false,
    false, false, false, true, false)), (String ((Ascii (true, true, false,
    false, false, true, true, false)), (String ((Ascii (true, true, false,
    false, false, true, true, false)), (String ((Ascii (true, true, true,
    true, false, true, true, false)), (String ((Ascii (true, false, true,
    false, true, true, true, false)), (String ((Ascii (false, true, true,
    true, false, true, true, false)), (String ((Ascii (false, false, true,
    false, true, true, true, false)), (String ((Ascii (true, true, false,
    true, false, false, true, false)), (String ((Ascii (true, false, true,
    false, false, true, true, false)), (String ((Ascii (true, false, false,
    true, true, true, true, false)),
    EmptyString)))))))))))))))))))))))))))))))))))))))))))))))))))))))))))))))))))),
    session_IDFromSessionForAccountKey) :: (((String ((Ascii (true, true,
    false, false, true, true, true, false)), (String ((Ascii (true, false,
    true, false, false, true, true, false)), (String ((Ascii (true, true,
    false, false, true, true, true, false)), (String ((Ascii (true, true,
    false, false, true, true, true, false)), (String ((Ascii (true, false,
    false, true, false, true, true, false)), (String ((Ascii (true, true,
    true, true, false, true, true, false)), (String ((Ascii (false, true,
    true, true, false, true, true, false)), (String ((Ascii (true, true,
    true, true, true, false, true, false)), (String ((Ascii (true, false,
    false, true, false, false, true, false)), (String ((Ascii (false, false,
    true, false, false, false, true, false)), (String ((Ascii (false, true,
    true, false, false, false, true, false)), (String ((Ascii (false, true,
    false, false, true, true, true, false)), (String ((Ascii (true, true,
    true, true, false, true, true, false)), (String ((Ascii (true, false,
    true, true, false, true, true, false)), (String ((Ascii (true, true,
    false, false, true, false, true, false)), (String ((Ascii (true, false,
    true, false, false, true, true, false)), (String ((Ascii (true, true,
    false, false, true, true, true, false)), (String ((Ascii (true, true,
    false, false, true, true, true, false)), (String ((Ascii (true, false,
    false, true, false, true, true, false)), (String ((Ascii (true, true,
    true, true, false, true, true, false)), (String ((Ascii (false, true,
    true, true, false, true, true, false)), (String ((Ascii (false, true,
    true, false, false, false, true, false)), (String ((Ascii (true, true,
    true, true, false, true, true, false)), (String ((Ascii (false, true,
    false, false, true, true, true, false)), (String ((Ascii (false, true,
    true, true, false, false, true, false)), (String ((Ascii (true, true,
    true, true, false, true, true, false)), (String ((Ascii (false, false,
    true, false, false, true, true, false)), (String ((Ascii (true, false,
    true, false, false, true, true, false)), (String ((Ascii (true, true,
    false, true, false, false, true, false)), (String ((Ascii (true, false,
    true, false, false, true, true, false)), (String ((Ascii (true, false,
    false, true, true, true, true, false)),
    EmptyString)))))))))))))))))))))))))))))))))))))))))))))))))))))))))))))),
    session_IDFromSessionForNodeKey) :: (((String ((Ascii (true, true, false,
    false, true, true, true, false)), (String ((Ascii (true, false, true,
    false, false, true, true, false)), (String ((Ascii (true, true, false,
    false, true, true, true, false)), (String ((Ascii (true, true, false,
    false, true, true, true, false)), (String ((Ascii (true, false, false,
    true, false, true, true, false)), (String ((Ascii (true, true, true,
    true, false, true, true, false)), (String ((Ascii (false, true, true,
    true, false, true, true, false)), (String ((Ascii (true, true, true,
    true, true, false, true, false)), (String ((Ascii (true, false, false,
    true, false, false, true, false)), (String ((Ascii (false, false, true,
    false, false, false, true, false)), (String ((Ascii (false, true, true,
    false, false, false, true, false)), (String ((Ascii (false, true, false,
    false, true, true, true, false)), (String ((Ascii (true, true, true,
    true, false, true, true, false)), (String ((Ascii (true, false, true,
    true, false, true, true, false)), (String ((Ascii (true, true, false,
    false, true, false, true, false)), (String ((Ascii (true, false, true,
    false, false, true, true, false)), (String ((Ascii (true, true, false,
    false, true, true, true, false)), (String ((Ascii (true, true, false,
    false, true, true, true, false)), (String ((Ascii (true, false, false,
    true, false, true, true, false)), (String ((Ascii (true, true, true,
    true, false, true, true, false)), (String ((Ascii (false, true, true,
    true, false, true, true, false)), (String ((Ascii (false, true, true,
    false, false, false, true, false)), (String ((Ascii (true, true, true,
    true, false, true, true, false)), (String ((Ascii (false, true, false,
    false, true, true, true, false)), (String ((Ascii (true, true, false,
    false, true, false, true, false)), (String ((Ascii (true, false, true,
    false, true, true, true, false)), (String ((Ascii (false, true, false,
    false, false, true, true, false)), (String ((Ascii (true, true, false,
    false, true, true, true, false)), (String ((Ascii (true, true, false,
    false, false, true, true, false)), (String ((Ascii (false, true, false,
    false, true, true, true, false)), (String ((Ascii (true, false, false,
    true, false, true, true, false)), (String ((Ascii (false, false, false,
    false, true, true, true, false)), (String ((Ascii (false, false, true,
    false, true, true, true, false)), (String ((Ascii (true, false, false,
    true, false, true, true, false)), (String ((Ascii (true, true, true,
    true, false, true, true, false)), (String ((Ascii (false, true, true,
    true, false, true, true, false)), (String ((Ascii (true, true, false,
    true, false, false, true, false)), (String ((Ascii (true, false, true,
    false, false, true, true, false)), (String ((Ascii (true, false, false,
    true, true, true, true, false)),
    EmptyString)))))))))))))))))))))))))))))))))))))))))))))))))))))))))))))))))))))))))))))),
    session_IDFromSessionForSubscriptionKey) :: (((String ((Ascii (true,
    true, false, false, true, true, true, false)), (String ((Ascii (true,
    false, true, false, false, true, true, false)), (String ((Ascii (true,
    true, false, false, true, true, true, false)), (String ((Ascii (true,
    true, false, false, true, true, true, false)), (String ((Ascii (true,
    false, false, true, false, true, true, false)), (String ((Ascii (true,
    true, true, true, false, true, true, false)), (String ((Ascii (false,
    true, true, true, false, true, true, false)), (String ((Ascii (true,
    true, true, true, true, false, true, false)), (String ((Ascii (true,
    false, false, true, false, false, true, false)), (String ((Ascii (false,
    false, true, false, false, false, true, false)), (String ((Ascii (false,
    true, true, false, false, false, true, false)), (String ((Ascii (false,
    true, false, false, true, true, true, false)), (String ((Ascii (true,
    true, true, true, false, true, true, false)), (String ((Ascii (true,
    false, true, true, false, true, true, false)), (String ((Ascii (true,
    true, false, false, true, false, true, false)), (String ((Ascii (true,
    false, true, false, false, true, true, false)), (String ((Ascii (true,
    true, false, false, true, true, true, false)), (String ((Ascii (true,
    true, false, false, true, true, true, false)), (String ((Ascii (true,
    false, false, true, false, true, true, false)), (String ((Ascii (true,
    true, true, true, false, true, true, false)), (String ((Ascii (false,
    true, true, true, false, true, true, false)), (String ((Ascii (false,
    true, true, false, false, false, true, false)), (String ((Ascii (true,
    true, true, true, false, true, true, false)), (String ((Ascii (false,
    true, false, false, true, true, true, false)), (String ((Ascii (true,
    false, false, false, false, false, true, false)), (String ((Ascii (false,
    false, true, true, false, true, true, false)), (String ((Ascii (false,
    false, true, true, false, true, true, false)), (String ((Ascii (true,
    true, true, true, false, true, true, false)), (String ((Ascii (true,
    true, false, false, false, true, true, false)), (String ((Ascii (true,
    false, false, false, false, true, true, false)), (String ((Ascii (false,
    false, true, false, true, true, true, false)), (String ((Ascii (true,
    false, false, true, false, true, true, false)), (String ((Ascii (true,
    true, true, true, false, true, true, false)), (String ((Ascii (false,
    true, true, true, false, true, true, false)), (String ((Ascii (true,
    true, false, true, false, false, true, false)), (String ((Ascii (true,
    false, true, false, false, true, true, false)), (String ((Ascii (true,
    false, false, true, true, true, true, false)),
    EmptyString)))))))))))))))))))))))))))))))))))))))))))))))))))))))))))))))))))))))))),
    session_IDFromSessionForAllocationKey) :: (((String ((Ascii (true, true,
    false, false, true, true, true, false)), (String ((Ascii (true, false,
    true, false, false, true, true, false)), (String ((Ascii (true, true,
    false, false, true, true, true, false)), (String ((Ascii (true, true,
    false, false, true, true, true, false)), (String ((Ascii (true, false,
    false, true, false, true, true, false)), (String ((Ascii (true, true,
    true, true, false, true, true, false)), (String ((Ascii (false, true,
    true, true, false, true, true, false)), (String ((Ascii (true, true,
    true, true, true, false, true, false)), (String ((Ascii (true, false,
    false, true, false, false, true, false)), (String ((Ascii (false, false,
    true, false, false, false, true, false)), (String ((Ascii (false, true,
    true, false, false, false, true, false)), (String ((Ascii (false, true,
    false, false, true, true, true, false)), (String ((Ascii (true, true,
    true, true, false, true, true, false)), (String ((Ascii (true, false,
    true, true, false, true, true, false)), (String ((Ascii (true, true,
    false, false, true, false, true, false)), (String ((Ascii (true, false,
    true, false, false, true, true, false)), (String ((Ascii (true, true,
    false, false, true, true, true, false)), (String ((Ascii (true, true,
    false, false, true, true, true, false)), (String ((Ascii (true, false,
    false, true, false, true, true, false)), (String ((Ascii (true, true,
    true, true, false, true, true, false)), (String ((Ascii (false, true,
    true, true, false, true, true, false)), (String ((Ascii (false, true,
    true, false, false, false, true, false)), (String ((Ascii (true, true,
    true, true, false, true, true, false)), (String ((Ascii (false, true,
    false, false, true, true, true, false)), (String ((Ascii (true, false,
    false, true, false, false, true, false)), (String ((Ascii (false, true,
    true, true, false, true, true, false)), (String ((Ascii (true, false,
    false, false, false, true, true, false)), (String ((Ascii (true, true,
    false, false, false, true, true, false)), (String ((Ascii (false, false,
    true, false, true, true, true, false)), (String ((Ascii (true, false,
    false, true, false, true, true, false)), (String ((Ascii (false, true,
    true, false, true, true, true, false)), (String ((Ascii (true, false,
    true, false, false, true, true, false)), (String ((Ascii (true, false,
    false, false, false, false, true, false)), (String ((Ascii (false, false,
    true, false, true, true, true, false)), (String ((Ascii (true, true,
    false, true, false, false, true, false)), (String ((Ascii (true, false,
    true, false, false, true, true, false)), (String ((Ascii (true, false,
    false, true, true, true, true, false)),
    EmptyString)))))))))))))))))))))))))))))))))))))))))))))))))))))))))))))))))))))))))),
    session_IDFromSessionForInactiveAtKey) :: (((String ((Ascii (true, true,
    false, false, true, true, true, false)), (String ((Ascii (true, false,
    true, false, true, true, true, false)), (String ((Ascii (false, true,
    false, false, false, true, true, false)), (String ((Ascii (true, true,
    false, false, true, true, true, false)), (String ((Ascii (true, true,
    false, false, false, true, true, false)), (String ((Ascii (false, true,
    false, false, true, true, true, false)), (String ((Ascii (true, false,
    false, true, false, true, true, false)), (String ((Ascii (false, false,
    false, false, true, true, true, false)), (String ((Ascii (false, false,
    true, false, true, true, true, false)), (String ((Ascii (true, false,
    false, true, false, true, true, false)), (String ((Ascii (true, true,
    true, true, false, true, true, false)), (String ((Ascii (false, true,
    true, true, false, true, true, false)), (String ((Ascii (true, true,
    true, true, true, false, true, false)), (String ((Ascii (true, false,
    false, true, false, false, true, false)), (String ((Ascii (false, false,
    true, false, false, false, true, false)), (String ((Ascii (false, true,
    true, false, false, false, true, false)), (String ((Ascii (false, true,
    false, false, true, true, true, false)), (String ((Ascii (true, true,
    true, true, false, true, true, false)), (String ((Ascii (true, false,
    true, true, false, true, true, false)), (String ((Ascii (true, true,
    false, false, true, false, true, false)), (String ((Ascii (true, false,
    true, false, true, true, true, false)), (String ((Ascii (false, true,
    false, false, false, true, true, false)), (String ((Ascii (true, true,
    false, false, true, true, true, false)), (String ((Ascii (true, true,
    false, false, false, true, true, false)), (String ((Ascii (false, true,
    false, false, true, true, true, false)), (String ((Ascii (true, false,
    false, true, false, true, true, false)), (String ((Ascii (false, false,
    false, false, true, true, true, false)), (String ((Ascii (false, false,
    true, false, true, true, true, false)), (String ((Ascii (true, false,
    false, true, false, true, true, false)), (String ((Ascii (true, true,
    true, true, false, true, true, false)), (String ((Ascii (false, true,
    true, true, false, true, true, false)), (String ((Ascii (false, true,
    true, false, false, false, true, false)), (String ((Ascii (true, true,
    true, true, false, true, true, false)), (String ((Ascii (false, true,
    false, false, true, true, true, false)), (String ((Ascii (true, false,
    false, false, false, false, true, false)), (String ((Ascii (true, true,
    false, false, false, true, true, false)), (String ((Ascii (true, true,
    false, false, false, true, true, false)), (String ((Ascii (true, true,
    true, true, false, true, true, false)), (String ((Ascii (true, false,
    true, false, true, true, true, false)), (String ((Ascii (false, true,
    true, true, false, true, true, false)), (String ((Ascii (false, false,
    true, false, true, true, true, false)), (String ((Ascii (true, true,
    false, true, false, false, true, false)), (String ((Ascii (true, false,
    true, false, false, true, true, false)), (String ((Ascii (true, false,
    false, true, true, true, true, false)),
    EmptyString)))))))))))))))))))))))))))))))))))))))))))))))))))))))))))))))))))))))))))))))))))))))),
    subscription_IDFromSubscriptionForAccountKey) :: (((String ((Ascii (true,
    true, false, false, true, true, true, false)), (String ((Ascii (true,
    false, true, false, true, true, true, false)), (String ((Ascii (false,
    true, false, false, false, true, true, false)), (String ((Ascii (true,
    true, false, false, true, true, true, false)), (String ((Ascii (true,
    true, false, false, false, true, true, false)), (String ((Ascii (false,
    true, false, false, true, true, true, false)), (String ((Ascii (true,
    false, false, true, false, true, true, false)), (String ((Ascii (false,
    false, false, false, true, true, true, false)), (String ((Ascii (false,
    false, true, false, true, true, true, false)), (String ((Ascii (true,
    false, false, true, false, true, true, false)), (String ((Ascii (true,
    true, true, true, false, true, true, false)), (String ((Ascii (false,
    true, true, true, false, true, true, false)), (String ((Ascii (true,
    true, true, true, true, false, true, false)), (String ((Ascii (true,
    false, false, true, false, false, true, false)), (String ((Ascii (false,
    false, true, false, false, false, true, false)), (String ((Ascii (false,
    true, true, false, false, false, true, false)), (String ((Ascii (false,
    true, false, false, true, true, true, false)), (String ((Ascii (true,
    true, true, true, false, true, true, false)), (String ((Ascii (true,
    false, true, true, false, true, true, false)), (String ((Ascii (true,
    true, false, false, true, false, true, false)), (String ((Ascii (true,
    false, true, false, true, true, true, false)), (String ((Ascii (false,
    true, false, false, false, true, true, false)), (String ((Ascii (true,
    true, false, false, true, true, true, false)), (String ((Ascii (true,
    true, false, false, false, true, true, false)), (String ((Ascii (false,
    true, false, false, true, true, true, false)), (String ((Ascii (true,
    false, false, true, false, true, true, false)), (String ((Ascii (false,
    false, false, false, true, true, true, false)), (String ((Ascii (false,
    false, true, false, true, true, true, false)), (String ((Ascii (true,
    false, false, true, false, true, true, false)), (String ((Ascii (true,
    true, true, true, false, true, true, false)), (String ((Ascii (false,
    true, true, true, false, true, true, false)), (String ((Ascii (false,
    true, true, false, false, false, true, false)), (String ((Ascii (true,
    true, true, true, false, true, true, false)), (String ((Ascii (false,
    true, false, false, true, true, true, false)), (String ((Ascii (false,
    true, true, true, false, false, true, false)), (String ((Ascii (true,
    true, true, true, false, true, true, false)), (String ((Ascii (false,
    false, true, false, false, true, true, false)), (String ((Ascii (true,
    false, true, false, false, true, true, false)), (String ((Ascii (true,
    true, false, true, false, false, true, false)), (String ((Ascii (true,
    false, true, false, false, true, true, false)), (String ((Ascii (true,
    false, false, true, true, true, true, false)),
    EmptyString)))))))))))))))))))))))))))))))))))))))))))))))))))))))))))))))))))))))))))))))))),
    subscription_IDFromSubscriptionForNodeKey) :: (((String ((Ascii (true,
    true, false, false, true, true, true, false)), (String ((Ascii (true,
    false, true, false, true, true, true, false)), (String ((Ascii (false,
    true, false, false, false, true, true, false)), (String ((Ascii (true,
    true, false, false, true, true, true, false)), (String ((Ascii (true,
    true, false, false, false, true, true, false)), (String ((Ascii (false,
    true, false, false, true, true, true, false)), (String ((Ascii (true,
    false, false, true, false, true, true, false)), (String ((Ascii (false,
    false, false, false, true, true, true, false)), (String ((Ascii (false,
    false, true, false, true, true, true, false)), (String ((Ascii (true,
    false, false, true, false, true, true, false)), (String ((Ascii (true,
    true, true, true, false, true, true, false)), (String ((Ascii (false,
    true, true, true, false, true, true, false)), (String ((Ascii (true,
    true, true, true, true, false, true, false)), (String ((Ascii (true,
    false, false, true, false, false, true, false)), (String ((Ascii (false,
    false, true, false, false, false, true, false)), (String ((Ascii (false,
    true, true, false, false, false, true, false)), (String ((Ascii (false,
    true, false, false, true, true, true, false)), (String ((Ascii (true,
    true, true, true, false, true, true, false)), (String ((Ascii (true,
    false, true, true, false, true, true, false)), (String ((Ascii (true,
    true, false, false, true, false, true, false)), (String ((Ascii (true,
    false, true, false, true, true, true, false)), (String ((Ascii (false,
    true, false, false, false, true, true, false)), (String ((Ascii (true,
    true, false, false, true, true, true, false)), (String ((Ascii (true,
    true, false, false, false, true, true, false)), (String ((Ascii (false,
    true, false, false, true, true, true, false)), (String ((Ascii (true,
    false, false, true, false, true, true, false)), (String ((Ascii (false,
    false, false, false, true, true, true, false)), (String ((Ascii (false,
    false, true, false, true, true, true, false)), (String ((Ascii (true,
    false, false, true, false, true, true, false)), (String ((Ascii (true,
    true, true, true, false, true, true, false)), (String ((Ascii (false,
    true, true, true, false, true, true, false)), (String ((Ascii (false,
    true, true, false, false, false, true, false)), (String ((Ascii (true,
    true, true, true, false, true, true, false)), (String ((Ascii (false,
    true, false, false, true, true, true, false)), (String ((Ascii (false,
    false, false, false, true, false, true, false)), (String ((Ascii (false,
    false, true, true, false, true, true, false)), (String ((Ascii (true,
    false, false, false, false, true, true, false)), (String ((Ascii (false,
    true, true, true, false, true, true, false)), (String ((Ascii (true,
    true, false, true, false, false, true, false)), (String ((Ascii (true,
    false, true, false, false, true, true, false)), (String ((Ascii (true,
    false, false, true, true, true, true, false)),
    EmptyString)))))))))))))))))))))))))))))))))))))))))))))))))))))))))))))))))))))))))))))))))),
    subscription_IDFromSubscriptionForPlanKey) :: (((String ((Ascii (true,
    true, false, false, true, true, true, false)), (String ((Ascii (true,
    false, true, false, true, true, true, false)), (String ((Ascii (false,
    true, false, false, false, true, true, false)), (String ((Ascii (true,
    true, false, false, true, true, true, false)), (String ((Ascii (true,
    true, false, false, false, true, true, false)), (String ((Ascii (false,
    true, false, false, true, true, true, false)), (String ((Ascii (true,
    false, false, true, false, true, true, false)), (String ((Ascii (false,
    false, false, false, true, true, true, false)), (String ((Ascii (false,
    false, true, false, true, true, true, false)), (String ((Ascii (true,
    false, false, true, false, true, true, false)), (String ((Ascii (true,
    true, true, true, false, true, true, false)), (String ((Ascii (false,
    true, true, true, false, true, true, false)), (String ((Ascii (true,
    true, true, true, true, false, true, false)), (String ((Ascii (true,
    false, false, true, false, false, true, false)), (String ((Ascii (false,
    false, true, false, false, false, true, false)), (String ((Ascii (false,
    true, true, false, false, false, true, false)), (String ((Ascii (false,
    true, false, false, true, true, true, false)), (String ((Ascii (true,
    true, true, true, false, true, true, false)), (String ((Ascii (true,
    false, true, true, false, true, true, false)), (String ((Ascii (true,
    true, false, false, true, false, true, false)), (String ((Ascii (true,
    false, true, false, true, true, true, false)), (String ((Ascii (false,
    true, false, false, false, true, true, false)), (String ((Ascii (true,
    true, false, false, true, true, true, false)), (String ((Ascii (true,
    true, false, false, false, true, true, false)), (String ((Ascii (false,
    true, false, false, true, true, true, false)), (String ((Ascii (true,
    false, false, true, false, true, true, false)), (String ((Ascii (false,
    false, false, false, true, true, true, false)), (String ((Ascii (false,
    false, true, false, true, true, true, false)), (String ((Ascii (true,
    false, false, true, false, true, true, false)), (String ((Ascii (true,
    true, true, true, false, true, true, false)), (String ((Ascii (false,
    true, true, true, false, true, true, false)), (String ((Ascii (false,
    true, true, false, false, false, true, false)), (String ((Ascii (true,
    true, true, true, false, true, true, false)), (String ((Ascii (false,
    true, false, false, true, true, true, false)), (String ((Ascii (true,
    false, false, true, false, false, true, false)), (String ((Ascii (false,
    true, true, true, false, true, true, false)), (String ((Ascii (true,
    false, false, false, false, true, true, false)), (String ((Ascii (true,
    true, false, false, false, true, true, false)), (String ((Ascii (false,
    false, true, false, true, true, true, false)), (String ((Ascii (true,
    false, false, true, false, true, true, false)), (String ((Ascii (false,
    true, true, false, true, true, true, false)), (String ((Ascii (true,
    false, true, false, false, true, true, false)), (String ((Ascii (true,
    false, false, false, false, false, true, false)), (String ((Ascii (false,
    false, true, false, true, true, true, false)), (String ((Ascii (true,
    true, false, true, false, false, true, false)), (String ((Ascii (true,
    false, true, false, false, true, true, false)), (String ((Ascii (true,
    false, false, true, true, true, true, false)),
    EmptyString)))))))))))))))))))))))))))))))))))))))))))))))))))))))))))))))))))))))))))))))))))))))))))))),
    subscription_IDFromSubscriptionForInactiveAtKey) :: (((String ((Ascii
    (true, true, false, false, true, true, true, false)), (String ((Ascii
    (true, false, true, false, true, true, true, false)), (String ((Ascii
    (false, true, false, false, false, true, true, false)), (String ((Ascii
    (true, true, false, false, true, true, true, false)), (String ((Ascii
    (true, true, false, false, false, true, true, false)), (String ((Ascii
    (false, true, false, false, true, true, true, false)), (String ((Ascii
    (true, false, false, true, false, true, true, false)), (String ((Ascii
    (false, false, false, false, true, true, true, false)), (String ((Ascii
    (false, false, true, false, true, true, true, false)), (String ((Ascii
    (true, false, false, true, false, true, true, false)), (String ((Ascii
    (true, true, true, true, false, true, true, false)), (String ((Ascii
    (false, true, true, true, false, true, true, false)), (String ((Ascii
    (true, true, true, true, true, false, true, false)), (String ((Ascii
    (true, false, false, true, false, false, true, false)), (String ((Ascii
    (false, false, true, false, false, false, true, false)), (String ((Ascii
    (false, true, true, false, false, false, true, false)), (String ((Ascii
    (false, true, false, false, true, true, true, false)), (String ((Ascii
    (true, true, true, true, false, true, true, false)), (String ((Ascii
    (true, false, true, true, false, true, true, false)), (String ((Ascii
    (false, false, false, false, true, false, true, false)), (String ((Ascii
    (true, false, false, false, false, true, true, false)), (String ((Ascii
    (true, false, false, true, true, true, true, false)), (String ((Ascii
    (true, true, true, true, false, true, true, false)), (String ((Ascii
    (true, false, true, false, true, true, true, false)), (String ((Ascii
    (false, false, true, false, true, true, true, false)), (String ((Ascii
    (false, true, true, false, false, false, true, false)), (String ((Ascii
    (true, true, true, true, false, true, true, false)), (String ((Ascii
    (false, true, false, false, true, true, true, false)), (String ((Ascii
    (true, false, false, false, false, false, true, false)), (String ((Ascii
    (true, true, false, false, false, true, true, false)), (String ((Ascii
    (true, true, false, false, false, true, true, false)), (String ((Ascii
    (true, true, true, true, false, true, true, false)), (String ((Ascii
    (true, false, true, false, true, true, true, false)), (String ((Ascii
    (false, true, true, true, false, true, true, false)), (String ((Ascii
    (false, false, true, false, true, true, true, false)), (String ((Ascii
    (true, true, false, true, false, false, true, false)), (String ((Ascii
    (true, false, true, false, false, true, true, false)), (String ((Ascii
    (true, false, false, true, true, true, true, false)),
    EmptyString)))))))))))))))))))))))))))))))))))))))))))))))))))))))))))))))))))))))))))),
    subscription_IDFromPayoutForAccountKey) :: (((String ((Ascii (true, true,
    false, false, true, true, true, false)), (String ((Ascii (true, false,
    true, false, true, true, true, false)), (String ((Ascii (false, true,
    false, false, false, true, true, false)), (String ((Ascii (true, true,
    false, false, true, true, true, false)), (String ((Ascii (true, true,
    false, false, false, true, true, false)), (String ((Ascii (false, true,
    false, false, true, true, true, false)), (String ((Ascii (true, false,
    false, true, false, true, true, false)), (String ((Ascii (false, false,
    false, false, true, true, true, false)), (String ((Ascii (false, false,
    true, false, true, true, true, false)), (String ((Ascii (true, false,
    false, true, false, true, true, false)), (String ((Ascii (true, true,
    true, true, false, true, true, false)), (String ((Ascii (false, true,
    true, true, false, true, true, false)), (String ((Ascii (true, true,
    true, true, true, false, true, false)), (String ((Ascii (true, false,
    false, true, false, false, true, false)), (String ((Ascii (false, false,
    true, false, false, false, true, false)), (String ((Ascii (false, true,
    true, false, false, false, true, false)), (String ((Ascii (false, true,
    false, false, true, true, true, false)), (String ((Ascii (true, true,
    true, true, false, true, true, false)), (String ((Ascii (true, false,
    true, true, false, true, true, false)), (String ((Ascii (false, false,
    false, false, true, false, true, false)), (String ((Ascii (true, false,
    false, false, false, true, true, false)), (String ((Ascii (true, false,
    false, true, true, true, true, false)), (String ((Ascii (true, true,
    true, true, false, true, true, false)), (String ((Ascii (true, false,
    true, false, true, true, true, false)), (String ((Ascii (false, false,
    true, false, true, true, true, false)), (String ((Ascii (false, true,
    true, false, false, false, true, false)), (String ((Ascii (true, true,
    true, true, false, true, true, false)), (String ((Ascii (false, true,
    false, false, true, true, true, false)), (String ((Ascii (false, true,
    true, true, false, false, true, false)), (String ((Ascii (true, true,
    true, true, false, true, true, false)), (String ((Ascii (false, false,
    true, false, false, true, true, false)), (String ((Ascii (true, false,
    true, false, false, true, true, false)), (String ((Ascii (true, true,
    false, true, false, false, true, false)), (String ((Ascii (true, false,
    true, false, false, true, true, false)), (String ((Ascii (true, false,
    false, true, true, true, true, false)),
    EmptyString)))))))))))))))))))))))))))))))))))))))))))))))))))))))))))))))))))))),
    subscription_IDFromPayoutForNodeKey) :: (((String ((Ascii (true, true,
    false, false, true, true, true, false)), (String ((Ascii (true, false,
    true, false, true, true, true, false)), (String ((Ascii (false, true,
    false, false, false, true, true, false)), (String ((Ascii (true, true,
    false, false, true, true, true, false)), (String ((Ascii (true, true,
    false, false, false, true, true, false)), (String ((Ascii (false, true,
    false, false, true, true, true, false)), (String ((Ascii (true, false,
    false, true, false, true, true, false)), (String ((Ascii (false, false,
    false, false, true, true, true, false)), (String ((Ascii (false, false,
    true, false, true, true, true, false)), (String ((Ascii (true, false,
    false, true, false, true, true, false)), (String ((Ascii (true, true,
    true, true, false, true, true, false)), (String ((Ascii (false, true,
    true, true, false, true, true, false)), (String ((Ascii (true, true,
    true, true, true, false, true, false)), (String ((Ascii (true, false,
    false, true, false, false, true, false)), (String ((Ascii (false, false,
    true, false, false, false, true, false)), (String ((Ascii (false, true,
    true, false, false, false, true, false)), (String ((Ascii (false, true,
    false, false, true, true, true, false)), (String ((Ascii (true, true,
    true, true, false, true, true, false)), (String ((Ascii (true, false,
    true, true, false, true, true, false)), (String ((Ascii (false, false,
    false, false, true, false, true, false)), (String ((Ascii (true, false,
    false, false, false, true, true, false)), (String ((Ascii (true, false,
    false, true, true, true, true, false)), (String ((Ascii (true, true,
    true, true, false, true, true, false)), (String ((Ascii (true, false,
    true, false, true, true, true, false)), (String ((Ascii (false, false,
    true, false, true, true, true, false)), (String ((Ascii (false, true,
    true, false, false, false, true, false)), (String ((Ascii (true, true,
    true, true, false, true, true, false)), (String ((Ascii (false, true,
    false, false, true, true, true, false)), (String ((Ascii (true, false,
    false, false, false, false, true, false)), (String ((Ascii (true, true,
    false, false, false, true, true, false)), (String ((Ascii (true, true,
    false, false, false, true, true, false)), (String ((Ascii (true, true,
    true, true, false, true, true, false)), (String ((Ascii (true, false,
    true, false, true, true, true, false)), (String ((Ascii (false, true,
    true, true, false, true, true, false)), (String ((Ascii (false, false,
    true, false, true, true, true, false)), (String ((Ascii (false, true,
    false, false, false, false, true, false)), (String ((Ascii (true, false,
    false, true, true, true, true, false)), (String ((Ascii (false, true,
    true, true, false, false, true, false)), (String ((Ascii (true, true,
    true, true, false, true, true, false)), (String ((Ascii (false, false,
    true, false, false, true, true, false)), (String ((Ascii (true, false,
    true, false, false, true, true, false)), (String ((Ascii (true, true,
    false, true, false, false, true, false)), (String ((Ascii (true, false,
    true, false, false, true, true, false)), (String ((Ascii (true, false,
    false, true, true, true, true, false)),
    EmptyString)))))))))))))))))))))))))))))))))))))))))))))))))))))))))))))))))))))))))))))))))))))))),
    subscription_IDFromPayoutForAccountByNodeKey) :: (((String ((Ascii (true,
    true, false, false, true, true, true, false)), (String ((Ascii (true,
    false, true, false, true, true, true, false)), (String ((Ascii (false,
    true, false, false, false, true, true, false)), (String ((Ascii (true,
    true, false, false, true, true, true, false)), (String ((Ascii (true,
    true, false, false, false, true, true, false)), (String ((Ascii (false,
    true, false, false, true, true, true, false)), (String ((Ascii (true,
    false, false, true, false, true, true, false)), (String ((Ascii (false,
    false, false, false, true, true, true, false)), (String ((Ascii (false,
    false, true, false, true, true, true, false)), (String ((Ascii (true,
    false, false, true, false, true, true, false)), (String ((Ascii (true,
    true, true, true, false, true, true, false)), (String ((Ascii (false,
    true, true, true, false, true, true, false)), (String ((Ascii (true,
    true, true, true, true, false, true, false)), (String ((Ascii (true,
    false, false, true, false, false, true, false)), (String ((Ascii (false,
    false, true, false, false, false, true, false)), (String ((Ascii (false,
    true, true, false, false, false, true, false)), (String ((Ascii (false,
    true, false, false, true, true, true, false)), (String ((Ascii (true,
    true, true, true, false, true, true, false)), (String ((Ascii (true,
    false, true, true, false, true, true, false)), (String ((Ascii (false,
    false, false, false, true, false, true, false)), (String ((Ascii (true,
    false, false, false, false, true, true, false)), (String ((Ascii (true,
    false, false, true, true, true, true, false)), (String ((Ascii (true,
    true, true, true, false, true, true, false)), (String ((Ascii (true,
    false, true, false, true, true, true, false)), (String ((Ascii (false,
    false, true, false, true, true, true, false)), (String ((Ascii (false,
    true, true, false, false, false, true, false)), (String ((Ascii (true,
    true, true, true, false, true, true, false)), (String ((Ascii (false,
    true, false, false, true, true, true, false)), (String ((Ascii (false,
    true, true, true, false, false, true, false)), (String ((Ascii (true,
    false, true, false, false, true, true, false)), (String ((Ascii (false,
    false, false, true, true, true, true, false)), (String ((Ascii (false,
    false, true, false, true, true, true, false)), (String ((Ascii (true,
    false, false, false, false, false, true, false)), (String ((Ascii (false,
    false, true, false, true, true, true, false)), (String ((Ascii (true,
    true, false, true, false, false, true, false)), (String ((Ascii (true,
    false, true, false, false, true, true, false)), (String ((Ascii (true,
    false, false, true, true, true, true, false)),
    EmptyString)))))))))))))))))))))))))))))))))))))))))))))))))))))))))))))))))))))))))),
    subscription_IDFromPayoutForNextAtKey) :: [])))))))))))))

(** val gen_dec_bytes_table : (string * (bytes -> bytes res)) list **)

let gen_dec_bytes_table =
  ((String ((Ascii (false, true, true, true, false, true, true, false)),
    (String ((Ascii (true, true, true, true, false, true, true, false)),
    (String ((Ascii (false, false, true, false, false, true, true, false)),
    (String ((Ascii (true, false, true, false, false, true, true, false)),
    (String ((Ascii (true, true, true, true, true, false, true, false)),
    (String ((Ascii (true, false, false, false, false, false, true, false)),
    (String ((Ascii (false, false, true, false, false, true, true, false)),
    (String ((Ascii (false, false, true, false, false, true, true, false)),
    (String ((Ascii (false, true, false, false, true, true, true, false)),
    (String ((Ascii (true, false, true, false, false, true, true, false)),
    (String ((Ascii (true, true, false, false, true, true, true, false)),
    (String ((Ascii (true, true, false, false, true, true, true, false)),
    (String ((Ascii (false, true, true, false, false, false, true, false)),
    (String ((Ascii (false, true, false, false, true, true, true, false)),
    (String ((Ascii (true, true, true, true, false, true, true, false)),
    (String ((Ascii (true, false, true, true, false, true, true, false)),
    (String ((Ascii (false, true, true, true, false, false, true, false)),
    (String ((Ascii (true, true, true, true, false, true, true, false)),
    (String ((Ascii (false, false, true, false, false, true, true, false)),
    (String ((Ascii (true, false, true, false, false, true, true, false)),
    (String ((Ascii (false, true, true, false, false, false, true, false)),
    (String ((Ascii (true, true, true, true, false, true, true, false)),
    (String ((Ascii (false, true, false, false, true, true, true, false)),
    (String ((Ascii (false, false, false, false, true, false, true, false)),
    (String ((Ascii (false, false, true, true, false, true, true, false)),
    (String ((Ascii (true, false, false, false, false, true, true, false)),
    (String ((Ascii (false, true, true, true, false, true, true, false)),
    (String ((Ascii (true, true, false, true, false, false, true, false)),
    (String ((Ascii (true, false, true, false, false, true, true, false)),
    (String ((Ascii (true, false, false, true, true, true, true, false)),
    EmptyString)))))))))))))))))))))))))))))))))))))))))))))))))))))))))))),
    node_AddressFromNodeForPlanKey) :: (((String ((Ascii (false, true, true,
    true, false, true, true, false)), (String ((Ascii (true, true, true,
    true, false, true, true, false)), (String ((Ascii (false, false, true,
    false, false, true, true, false)), (String ((Ascii (true, false, true,
    false, false, true, true, false)), (String ((Ascii (true, true, true,
    true, true, false, true, false)), (String ((Ascii (true, false, false,
    false, false, false, true, false)), (String ((Ascii (false, false, true,
    false, false, true, true, false)), (String ((Ascii (false, false, true,
    false, false, true, true, false)), (String ((Ascii (false, true, false,
    false, true, true, true, false)), (String ((Ascii (true, false, true,
    false, false, true, true, false)), (String ((Ascii (true, true, false,
    false, true, true, true, false)), (String ((Ascii (true, true, false,
    false, true, true, true, false)), (String ((Ascii (false, true, true,
    false, false, false, true, false)), (String ((Ascii (false, true, false,
    false, true, true, true, false)), (String ((Ascii (true, true, true,
    true, false, true, true, false)), (String ((Ascii (true, false, true,
    true, false, true, true, false)), (String ((Ascii (false, true, true,
    true, false, false, true, false)), (String ((Ascii (true, true, true,
    true, false, true, true, false)), (String ((Ascii (false, false, true,
    false, false, true, true, false)), (String ((Ascii (true, false, true,
    false, false, true, true, false)), (String ((Ascii (false, true, true,
    false, false, false, true, false)), (String ((Ascii (true, true, true,
    true, false, true, true, false)), (String ((Ascii (false, true, false,
    false, true, true, true, false)), (String ((Ascii (true, false, false,
    true, false, false, true, false)), (String ((Ascii (false, true, true,
    true, false, true, true, false)), (String ((Ascii (true, false, false,
    false, false, true, true, false)), (String ((Ascii (true, true, false,
    false, false, true, true, false)), (String ((Ascii (false, false, true,
    false, true, true, true, false)), (String ((Ascii (true, false, false,
    true, false, true, true, false)), (String ((Ascii (false, true, true,
    false, true, true, true, false)), (String ((Ascii (true, false, true,
    false, false, true, true, false)), (String ((Ascii (true, false, false,
    false, false, false, true, false)), (String ((Ascii (false, false, true,
    false, true, true, true, false)), (String ((Ascii (true, true, false,
    true, false, false, true, false)), (String ((Ascii (true, false, true,
    false, false, true, true, false)), (String ((Ascii (true, false, false,
    true, true, true, true, false)),
    EmptyString)))))))))))))))))))))))))))))))))))))))))))))))))))))))))))))))))))))))),
    node_AddressFromNodeForInactiveAtKey) :: (((String ((Ascii (true, true,
    false, false, true, true, true, false)), (String ((Ascii (true, false,
    true, false, true, true, true, false)), (String ((Ascii (false, true,
    false, false, false, true, true, false)), (String ((Ascii (true, true,
    false, false, true, true, true, false)), (String ((Ascii (true, true,
    false, false, false, true, true, false)), (String ((Ascii (false, true,
    false, false, true, true, true, false)), (String ((Ascii (true, false,
    false, true, false, true, true, false)), (String ((Ascii (false, false,
    false, false, true, true, true, false)), (String ((Ascii (false, false,
    true, false, true, true, true, false)), (String ((Ascii (true, false,
    false, true, false, true, true, false)), (String ((Ascii (true, true,
    true, true, false, true, true, false)), (String ((Ascii (false, true,
    true, true, false, true, true, false)), (String ((Ascii (true, true,
    true, true, true, false, true, false)), (String ((Ascii (true, false,
    false, false, false, false, true, false)), (String ((Ascii (true, true,
    false, false, false, true, true, false)), (String ((Ascii (true, true,
    false, false, false, true, true, false)), (String ((Ascii (true, false,
    false, false, false, false, true, false)), (String ((Ascii (false, false,
    true, false, false, true, true, false)), (String ((Ascii (false, false,
    true, false, false, true, true, false)), (String ((Ascii (false, true,
    false, false, true, true, true, false)), (String ((Ascii (false, true,
    true, false, false, false, true, false)), (String ((Ascii (false, true,
    false, false, true, true, true, false)), (String ((Ascii (true, true,
    true, true, false, true, true, false)), (String ((Ascii (true, false,
    true, true, false, true, true, false)), (String ((Ascii (true, true,
    false, false, true, false, true, false)), (String ((Ascii (true, false,
    true, false, true, true, true, false)), (String ((Ascii (false, true,
    false, false, false, true, true, false)), (String ((Ascii (true, true,
    false, false, true, true, true, false)), (String ((Ascii (true, true,
    false, false, false, true, true, false)), (String ((Ascii (false, true,
    false, false, true, true, true, false)), (String ((Ascii (true, false,
    false, true, false, true, true, false)), (String ((Ascii (false, false,
    false, false, true, true, true, false)), (String ((Ascii (false, false,
    true, false, true, true, true, false)), (String ((Ascii (true, false,
    false, true, false, true, true, false)), (String ((Ascii (true, true,
    true, true, false, true, true, false)), (String ((Ascii (false, true,
    true, true, false, true, true, false)), (String ((Ascii (false, true,
    true, false, false, false, true, false)), (String ((Ascii (true, true,
    true, true, false, true, true, false)), (String ((Ascii (false, true,
    false, false, true, true, true, false)), (String ((Ascii (true, false,
    false, false, false, false, true, false)), (String ((Ascii (true, true,
    false, false, false, true, true, false)), (String ((Ascii (true, true,
    false, false, false, true, true, false)), (String ((Ascii (true, true,
    true, true, false, true, true, false)), (String ((Ascii (true, false,
    true, false, true, true, true, false)), (String ((Ascii (false, true,
    true, true, false, true, true, false)), (String ((Ascii (false, false,
    true, false, true, true, true, false)), (String ((Ascii (true, true,
    false, true, false, false, true, false)), (String ((Ascii (true, false,
    true, false, false, true, true, false)), (String ((Ascii (true, false,
    false, true, true, true, true, false)),
    EmptyString)))))))))))))))))))))))))))))))))))))))))))))))))))))))))))))))))))))))))))))))))))))))))))))))))),
    subscription_AccAddrFromSubscriptionForAccountKey) :: []))

(** val gen_store_table : (string * bytes) list **)

let gen_store_table =
  ((String ((Ascii (false, false, true, false, false, true, true, false)),
    (String ((Ascii (true, false, true, false, false, true, true, false)),
    (String ((Ascii (false, false, false, false, true, true, true, false)),
    (String ((Ascii (true, true, true, true, false, true, true, false)),
    (String ((Ascii (true, true, false, false, true, true, true, false)),
    (String ((Ascii (true, false, false, true, false, true, true, false)),
    (String ((Ascii (false, false, true, false, true, true, true, false)),
    EmptyString)))))))))))))), deposit_StorePrefix) :: (((String ((Ascii
    (true, false, true, true, false, true, true, false)), (String ((Ascii
    (true, false, false, true, false, true, true, false)), (String ((Ascii
    (false, true, true, true, false, true, true, false)), (String ((Ascii
    (false, false, true, false, true, true, true, false)),
    EmptyString)))))))), mint_StorePrefix) :: (((String ((Ascii (false, true,
    true, true, false, true, true, false)), (String ((Ascii (true, true,
    true, true, false, true, true, false)), (String ((Ascii (false, false,
    true, false, false, true, true, false)), (String ((Ascii (true, false,
    true, false, false, true, true, false)), EmptyString)))))))),
    node_StorePrefix) :: (((String ((Ascii (false, false, false, false, true,
    true, true, false)), (String ((Ascii (false, false, true, true, false,
    true, true, false)), (String ((Ascii (true, false, false, false, false,
    true, true, false)), (String ((Ascii (false, true, true, true, false,
    true, true, false)), EmptyString)))))))), plan_StorePrefix) :: (((String
    ((Ascii (false, false, false, false, true, true, true, false)), (String
    ((Ascii (false, true, false, false, true, true, true, false)), (String
    ((Ascii (true, true, true, true, false, true, true, false)), (String
    ((Ascii (false, true, true, false, true, true, true, false)), (String
    ((Ascii (true, false, false, true, false, true, true, false)), (String
    ((Ascii (false, false, true, false, false, true, true, false)), (String
    ((Ascii (true, false, true, false, false, true, true, false)), (String
    ((Ascii (false, true, false, false, true, true, true, false)),
    EmptyString)))))))))))))))), provider_StorePrefix) :: (((String ((Ascii
    (true, true, false, false, true, true, true, false)), (String ((Ascii
    (true, false, true, false, false, true, true, false)), (String ((Ascii
    (true, true, false, false, true, true, true, false)), (String ((Ascii
    (true, true, false, false, true, true, true, false)), (String ((Ascii
    (true, false, false, true, false, true, true, false)), (String ((Ascii
    (true, true, true, true, false, true, true, false)), (String ((Ascii
    (false, true, true, true, false, true, true, false)),
    EmptyString)))))))))))))), session_StorePrefix) :: (((String ((Ascii
    (true, true, false, false, true, true, true, false)), (String ((Ascii
    (true, false, true, false, true, true, true, false)), (String ((Ascii
    (false, true, false, false, false, true, true, false)), (String ((Ascii
    (true, true, false, false, true, true, true, false)), (String ((Ascii
    (true, true, false, false, false, true, true, false)), (String ((Ascii
    (false, true, false, false, true, true, true, false)), (String ((Ascii
    (true, false, false, true, false, true, true, false)), (String ((Ascii
    (false, false, false, false, true, true, true, false)), (String ((Ascii
    (false, false, true, false, true, true, true, false)), (String ((Ascii
    (true, false, false, true, false, true, true, false)), (String ((Ascii
    (true, true, true, true, false, true, true, false)), (String ((Ascii
    (false, true, true, true, false, true, true, false)),
    EmptyString)))))))))))))))))))))))),
    subscription_StorePrefix) :: (((String ((Ascii (true, true, false, false,
    true, true, true, false)), (String ((Ascii (true, true, true, false,
    true, true, true, false)), (String ((Ascii (true, false, false, false,
    false, true, true, false)), (String ((Ascii (false, false, false, false,
    true, true, true, false)), EmptyString)))))))),
    swap_StorePrefix) :: [])))))))

(** val model_addr_to_text : arole -> bytes -> bytes option **)

let model_addr_to_text =
  addr_to_text hrp_of

(** val model_addr_from_text : arole -> bytes -> bytes option **)

let model_addr_from_text =
  addr_from_text hrp_of
