(* Runner of the extracted key / address model: reads the case file written by
   `harness keys`, recomputes the right-hand side of every line from the
   definitions of Gen/KeysGen.v (+ Base/Bytes, Time, Bech32) and prints the line in
   the same format.  Glue only: parsing, number conversion, printing. *)
module H = Keys_model

let rec pos_of_z (z : Z.t) : H.positive =
  if Z.equal z Z.one then H.XH
  else
    let q = Z.shift_right z 1 in
    if Z.testbit z 0 then H.XI (pos_of_z q) else H.XO (pos_of_z q)
let hz_of (z : Z.t) : H.z =
  if Z.sign z = 0 then H.Z0 else if Z.sign z > 0 then H.Zpos (pos_of_z z) else H.Zneg (pos_of_z (Z.neg z))
let hn_of (z : Z.t) : H.n = if Z.sign z = 0 then H.N0 else H.Npos (pos_of_z z)
let rec z_of_pos = function
  | H.XH -> Z.one
  | H.XO p -> Z.shift_left (z_of_pos p) 1
  | H.XI p -> Z.succ (Z.shift_left (z_of_pos p) 1)
let z_of_hn = function H.N0 -> Z.zero | H.Npos p -> z_of_pos p
let byte_tab : H.n array = Array.init 256 (fun i -> hn_of (Z.of_int i))
let int_of_hn n = Z.to_int (z_of_hn n)

let string_of_h (s : H.string) : string =
  let b = Buffer.create 16 in
  let rec go = function
    | H.EmptyString -> ()
    | H.String (H.Ascii (b0, b1, b2, b3, b4, b5, b6, b7), r) ->
        let v x k = if x then 1 lsl k else 0 in
        Buffer.add_char b (Char.chr (v b0 0 + v b1 1 + v b2 2 + v b3 3 + v b4 4 + v b5 5 + v b6 6 + v b7 7));
        go r
  in
  go s; Buffer.contents b

let hexdigit c = match c with
  | '0'..'9' -> Char.code c - 48 | 'a'..'f' -> Char.code c - 87 | 'A'..'F' -> Char.code c - 55
  | _ -> failwith "bad hex"
let bytes_of_hex (s : string) : H.n list =
  if s = "-" then [] else
  List.init (String.length s / 2) (fun i -> byte_tab.(hexdigit s.[2*i] * 16 + hexdigit s.[2*i+1]))
let hex_of_bytes (l : H.n list) : string =
  if l = [] then "-" else
  let b = Buffer.create 64 in
  List.iter (fun x -> Buffer.add_string b (Printf.sprintf "%02x" (int_of_hn x))) l;
  Buffer.contents b

let ctor_tab = List.map (fun (n, f) -> (string_of_h n, f)) H.gen_ctor_table
let dec_u64_tab = List.map (fun (n, f) -> (string_of_h n, f)) H.gen_dec_u64_table
let dec_bytes_tab = List.map (fun (n, f) -> (string_of_h n, f)) H.gen_dec_bytes_table
let prefix_tab = List.map (fun (n, v) -> (string_of_h n, v)) H.gen_prefix_table
let store_tab = List.map (fun (n, v) -> (string_of_h n, v)) H.gen_store_table

(* which constructor each decoder is applied to on K lines (same table as the harness) *)
let dec_of = [
  "node_AddressFromNodeForPlanKey", "node_NodeForPlanKey";
  "node_AddressFromNodeForInactiveAtKey", "node_NodeForInactiveAtKey";
  "plan_IDFromPlanForProviderKey", "plan_PlanForProviderKey";
  "session_IDFromSessionForAccountKey", "session_SessionForAccountKey";
  "session_IDFromSessionForNodeKey", "session_SessionForNodeKey";
  "session_IDFromSessionForSubscriptionKey", "session_SessionForSubscriptionKey";
  "session_IDFromSessionForAllocationKey", "session_SessionForAllocationKey";
  "session_IDFromSessionForInactiveAtKey", "session_SessionForInactiveAtKey";
  "subscription_AccAddrFromSubscriptionForAccountKey", "subscription_SubscriptionForAccountKey";
  "subscription_IDFromSubscriptionForAccountKey", "subscription_SubscriptionForAccountKey";
  "subscription_IDFromSubscriptionForNodeKey", "subscription_SubscriptionForNodeKey";
  "subscription_IDFromSubscriptionForPlanKey", "subscription_SubscriptionForPlanKey";
  "subscription_IDFromSubscriptionForInactiveAtKey", "subscription_SubscriptionForInactiveAtKey";
  "subscription_IDFromPayoutForAccountKey", "subscription_PayoutForAccountKey";
  "subscription_IDFromPayoutForNodeKey", "subscription_PayoutForNodeKey";
  "subscription_IDFromPayoutForAccountByNodeKey", "subscription_PayoutForAccountByNodeKey";
  "subscription_IDFromPayoutForNextAtKey", "subscription_PayoutForNextAtKey";
]

let run_dec (name : string) (key : H.n list) : string =
  match List.assoc_opt name dec_u64_tab with
  | Some f -> (match f key with H.Ok v -> Z.to_string (z_of_hn v) | _ -> "panic")
  | None ->
    match List.assoc_opt name dec_bytes_tab with
    | Some f -> (match f key with H.Ok v -> hex_of_bytes v | _ -> "panic")
    | None -> "unknown-decoder"

let role_of = function "acc" -> H.RoleAcc | "node" -> H.RoleNode | "prov" -> H.RoleProv | _ -> failwith "role"
let roles = ["acc"; "node"; "prov"]
let parse_under r text =
  match H.model_addr_from_text (role_of r) text with
  | Some b -> "ok:" ^ hex_of_bytes b
  | None -> "err"

let split_arrow (line : string) : string * string =
  (* "<lhs> =><rhs>" *)
  let n = String.length line in
  let rec find i = if i + 1 >= n then n else if line.[i] = '=' && line.[i+1] = '>' then i else find (i+1) in
  let i = find 0 in
  (String.trim (String.sub line 0 i), if i >= n then "" else String.sub line (i+2) (n-i-2))

let () =
  let file = Sys.argv.(1) in
  let ic = open_in file in
  let buf = Buffer.create (1 lsl 16) in
  (try
    while true do
      let line = input_line ic in
      Buffer.clear buf;
      if String.length line > 0 && line.[0] = '#' then print_endline line
      else begin
        let (lhs, _) = split_arrow line in
        let toks = String.split_on_char ' ' lhs in
        Buffer.add_string buf lhs; Buffer.add_string buf " =>";
        (match toks with
         | ["P"] ->
             List.iter (fun (n, v) -> Buffer.add_string buf (Printf.sprintf " %s=%s" n (hex_of_bytes v))) prefix_tab
         | ["S"] ->
             List.iter (fun (n, v) -> Buffer.add_string buf (Printf.sprintf " %s=%s" n (hex_of_bytes v))) store_tab
         | ["K"; a1; a2; id1; id2; t; h] ->
             let a1 = bytes_of_hex a1 and a2 = bytes_of_hex a2 and h = bytes_of_hex h in
             let id1 = hn_of (Z.of_string id1) and id2 = hn_of (Z.of_string id2) in
             let t = hz_of (Z.of_string t) in
             let keys = List.map (fun (n, f) ->
               let (ok, k) = f a1 a2 id1 id2 t h in
               Buffer.add_string buf (if ok then Printf.sprintf " %s=%s" n (hex_of_bytes k) else Printf.sprintf " %s=panic" n);
               (n, if ok then Some k else None)) ctor_tab in
             List.iter (fun (d, c) ->
               match List.assoc_opt c keys with
               | Some (Some k) -> Buffer.add_string buf (Printf.sprintf " %s=%s" d (run_dec d k))
               | _ -> Buffer.add_string buf (Printf.sprintf " %s=nokey" d)) dec_of
         | ["D"; name; key] ->
             Buffer.add_string buf (" " ^ run_dec name (bytes_of_hex key))
         | ["O"; fam; t1; id1; a1; t2; id2; a2] ->
             let f = List.assoc fam ctor_tab in
             let mk t id a =
               let a = bytes_of_hex a in
               f a a (hn_of (Z.of_string id)) (hn_of (Z.of_string id)) (hz_of (Z.of_string t)) [] in
             let (ok1, k1) = mk t1 id1 a1 and (ok2, k2) = mk t2 id2 a2 in
             Buffer.add_string buf
               (if ok1 && ok2 then (match H.bytes_cmp k1 k2 with H.Lt -> " -1" | H.Eq -> " 0" | H.Gt -> " 1") else " panic")
         | ["B"; r; a] ->
             let a = bytes_of_hex a in
             (match H.model_addr_to_text (role_of r) a with
              | None -> Buffer.add_string buf " text=panic acc=panic node=panic prov=panic"
              | Some text ->
                  Buffer.add_string buf (" text=" ^ hex_of_bytes text);
                  List.iter (fun r' -> Buffer.add_string buf (Printf.sprintf " %s=%s" r' (parse_under r' text))) roles)
         | ["T"; s] ->
             let text = bytes_of_hex s in
             List.iter (fun r' -> Buffer.add_string buf (Printf.sprintf " %s=%s" r' (parse_under r' text))) roles
         | _ -> Buffer.add_string buf " unparsed-line");
        print_endline (Buffer.contents buf)
      end
    done
  with End_of_file -> ());
  close_in ic
