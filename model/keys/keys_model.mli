
type __ = Obj.t

val xorb : bool -> bool -> bool

val negb : bool -> bool

type nat =
| O
| S of nat

type ('a, 'b) sum =
| Inl of 'a
| Inr of 'b

val fst : ('a1 * 'a2) -> 'a1

val snd : ('a1 * 'a2) -> 'a2

val length : 'a1 list -> nat

val app : 'a1 list -> 'a1 list -> 'a1 list

type comparison =
| Eq
| Lt
| Gt

val compOpp : comparison -> comparison

type compareSpecT =
| CompEqT
| CompLtT
| CompGtT

val compareSpec2Type : comparison -> compareSpecT

type 'a compSpecT = compareSpecT

val compSpec2Type : 'a1 -> 'a1 -> comparison -> 'a1 compSpecT

type 'a sig0 = 'a
  (* singleton inductive, whose constructor was exist *)



type uint =
| Nil
| D0 of uint
| D1 of uint
| D2 of uint
| D3 of uint
| D4 of uint
| D5 of uint
| D6 of uint
| D7 of uint
| D8 of uint
| D9 of uint

type signed_int =
| Pos of uint
| Neg of uint

val nzhead : uint -> uint

val unorm : uint -> uint

val norm : signed_int -> signed_int

val revapp : uint -> uint -> uint

val rev : uint -> uint

module Little :
 sig
  val succ : uint -> uint
 end

type uint0 =
| Nil0
| D10 of uint0
| D11 of uint0
| D12 of uint0
| D13 of uint0
| D14 of uint0
| D15 of uint0
| D16 of uint0
| D17 of uint0
| D18 of uint0
| D19 of uint0
| Da of uint0
| Db of uint0
| Dc of uint0
| Dd of uint0
| De of uint0
| Df of uint0

type signed_int0 =
| Pos0 of uint0
| Neg0 of uint0

val nzhead0 : uint0 -> uint0

val unorm0 : uint0 -> uint0

val norm0 : signed_int0 -> signed_int0

val revapp0 : uint0 -> uint0 -> uint0

val rev0 : uint0 -> uint0

module Coq_Little :
 sig
  val succ : uint0 -> uint0
 end

type uint1 =
| UIntDecimal of uint
| UIntHexadecimal of uint0

type signed_int1 =
| IntDecimal of signed_int
| IntHexadecimal of signed_int0

val add : nat -> nat -> nat

val sub : nat -> nat -> nat

type positive =
| XI of positive
| XO of positive
| XH

type n =
| N0
| Npos of positive

type z =
| Z0
| Zpos of positive
| Zneg of positive

type reflect =
| ReflectT
| ReflectF

val iff_reflect : bool -> reflect

module Nat :
 sig
  type t = nat

  val zero : nat

  val one : nat

  val two : nat

  val succ : nat -> nat

  val pred : nat -> nat

  val add : nat -> nat -> nat

  val double : nat -> nat

  val mul : nat -> nat -> nat

  val sub : nat -> nat -> nat

  val eqb : nat -> nat -> bool

  val leb : nat -> nat -> bool

  val ltb : nat -> nat -> bool

  val compare : nat -> nat -> comparison

  val max : nat -> nat -> nat

  val min : nat -> nat -> nat

  val even : nat -> bool

  val odd : nat -> bool

  val pow : nat -> nat -> nat

  val tail_add : nat -> nat -> nat

  val tail_addmul : nat -> nat -> nat -> nat

  val tail_mul : nat -> nat -> nat

  val of_uint_acc : uint -> nat -> nat

  val of_uint : uint -> nat

  val of_hex_uint_acc : uint0 -> nat -> nat

  val of_hex_uint : uint0 -> nat

  val of_num_uint : uint1 -> nat

  val to_little_uint : nat -> uint -> uint

  val to_uint : nat -> uint

  val to_little_hex_uint : nat -> uint0 -> uint0

  val to_hex_uint : nat -> uint0

  val to_num_uint : nat -> uint1

  val to_num_hex_uint : nat -> uint1

  val of_int : signed_int -> nat option

  val of_hex_int : signed_int0 -> nat option

  val of_num_int : signed_int1 -> nat option

  val to_int : nat -> signed_int

  val to_hex_int : nat -> signed_int0

  val to_num_int : nat -> signed_int1

  val divmod : nat -> nat -> nat -> nat -> nat * nat

  val div : nat -> nat -> nat

  val modulo : nat -> nat -> nat

  val gcd : nat -> nat -> nat

  val square : nat -> nat

  val sqrt_iter : nat -> nat -> nat -> nat -> nat

  val sqrt : nat -> nat

  val log2_iter : nat -> nat -> nat -> nat -> nat

  val log2 : nat -> nat

  val iter : nat -> ('a1 -> 'a1) -> 'a1 -> 'a1

  val div2 : nat -> nat

  val testbit : nat -> nat -> bool

  val shiftl : nat -> nat -> nat

  val shiftr : nat -> nat -> nat

  val bitwise : (bool -> bool -> bool) -> nat -> nat -> nat -> nat

  val coq_land : nat -> nat -> nat

  val coq_lor : nat -> nat -> nat

  val ldiff : nat -> nat -> nat

  val coq_lxor : nat -> nat -> nat

  val recursion : 'a1 -> (nat -> 'a1 -> 'a1) -> nat -> 'a1

  val eq_dec : nat -> nat -> bool

  val leb_spec0 : nat -> nat -> reflect

  val ltb_spec0 : nat -> nat -> reflect

  module Private_OrderTac :
   sig
    module IsTotal :
     sig
     end

    module Tac :
     sig
     end
   end

  module Private_Tac :
   sig
   end

  module Private_Dec :
   sig
    val max_case_strong :
      nat -> nat -> (nat -> nat -> __ -> 'a1 -> 'a1) -> (__ -> 'a1) -> (__ ->
      'a1) -> 'a1

    val max_case :
      nat -> nat -> (nat -> nat -> __ -> 'a1 -> 'a1) -> 'a1 -> 'a1 -> 'a1

    val max_dec : nat -> nat -> bool

    val min_case_strong :
      nat -> nat -> (nat -> nat -> __ -> 'a1 -> 'a1) -> (__ -> 'a1) -> (__ ->
      'a1) -> 'a1

    val min_case :
      nat -> nat -> (nat -> nat -> __ -> 'a1 -> 'a1) -> 'a1 -> 'a1 -> 'a1

    val min_dec : nat -> nat -> bool
   end

  val max_case_strong : nat -> nat -> (__ -> 'a1) -> (__ -> 'a1) -> 'a1

  val max_case : nat -> nat -> 'a1 -> 'a1 -> 'a1

  val max_dec : nat -> nat -> bool

  val min_case_strong : nat -> nat -> (__ -> 'a1) -> (__ -> 'a1) -> 'a1

  val min_case : nat -> nat -> 'a1 -> 'a1 -> 'a1

  val min_dec : nat -> nat -> bool

  module Private_Parity :
   sig
   end

  module Private_NZPow :
   sig
   end

  module Private_NZSqrt :
   sig
   end

  val sqrt_up : nat -> nat

  val log2_up : nat -> nat

  module Private_NZDiv :
   sig
   end

  val lcm : nat -> nat -> nat

  val eqb_spec : nat -> nat -> reflect

  val b2n : bool -> nat

  val setbit : nat -> nat -> nat

  val clearbit : nat -> nat -> nat

  val ones : nat -> nat

  val lnot : nat -> nat -> nat

  val coq_Even_Odd_dec : nat -> bool

  type coq_EvenT = nat

  type coq_OddT = nat

  val coq_EvenT_0 : coq_EvenT

  val coq_EvenT_2 : nat -> coq_EvenT -> coq_EvenT

  val coq_OddT_1 : coq_OddT

  val coq_OddT_2 : nat -> coq_OddT -> coq_OddT

  val coq_EvenT_S_OddT : nat -> coq_EvenT -> coq_OddT

  val coq_OddT_S_EvenT : nat -> coq_OddT -> coq_EvenT

  val even_EvenT : nat -> coq_EvenT

  val odd_OddT : nat -> coq_OddT

  val coq_Even_EvenT : nat -> coq_EvenT

  val coq_Odd_OddT : nat -> coq_OddT

  val coq_EvenT_OddT_dec : nat -> (coq_EvenT, coq_OddT) sum

  val coq_OddT_EvenT_rect :
    (nat -> coq_EvenT -> 'a2 -> 'a1) -> 'a2 -> (nat -> coq_OddT -> 'a1 ->
    'a2) -> nat -> coq_OddT -> 'a1

  val coq_EvenT_OddT_rect :
    (nat -> coq_EvenT -> 'a2 -> 'a1) -> 'a2 -> (nat -> coq_OddT -> 'a1 ->
    'a2) -> nat -> coq_EvenT -> 'a2
 end

module Pos :
 sig
  type mask =
  | IsNul
  | IsPos of positive
  | IsNeg
 end

module Coq_Pos :
 sig
  val succ : positive -> positive

  val add : positive -> positive -> positive

  val add_carry : positive -> positive -> positive

  val pred_double : positive -> positive

  val pred_N : positive -> n

  type mask = Pos.mask =
  | IsNul
  | IsPos of positive
  | IsNeg

  val succ_double_mask : mask -> mask

  val double_mask : mask -> mask

  val double_pred_mask : positive -> mask

  val sub_mask : positive -> positive -> mask

  val sub_mask_carry : positive -> positive -> mask

  val mul : positive -> positive -> positive

  val iter : ('a1 -> 'a1) -> 'a1 -> positive -> 'a1

  val pow : positive -> positive -> positive

  val compare_cont : comparison -> positive -> positive -> comparison

  val compare : positive -> positive -> comparison

  val eqb : positive -> positive -> bool

  val coq_Nsucc_double : n -> n

  val coq_Ndouble : n -> n

  val coq_land : positive -> positive -> n

  val coq_lxor : positive -> positive -> n

  val shiftl : positive -> n -> positive

  val testbit : positive -> n -> bool

  val iter_op : ('a1 -> 'a1 -> 'a1) -> positive -> 'a1 -> 'a1

  val to_nat : positive -> nat

  val of_succ_nat : nat -> positive
 end

module N :
 sig
  val succ_double : n -> n

  val double : n -> n

  val add : n -> n -> n

  val sub : n -> n -> n

  val mul : n -> n -> n

  val compare : n -> n -> comparison

  val eqb : n -> n -> bool

  val leb : n -> n -> bool

  val ltb : n -> n -> bool

  val div2 : n -> n

  val pow : n -> n -> n

  val pos_div_eucl : positive -> n -> n * n

  val div_eucl : n -> n -> n * n

  val div : n -> n -> n

  val modulo : n -> n -> n

  val coq_land : n -> n -> n

  val coq_lxor : n -> n -> n

  val shiftl : n -> n -> n

  val shiftr : n -> n -> n

  val testbit : n -> n -> bool

  val to_nat : n -> nat

  val of_nat : nat -> n
 end

module Z :
 sig
  val double : z -> z

  val succ_double : z -> z

  val pred_double : z -> z

  val pos_sub : positive -> positive -> z

  val add : z -> z -> z

  val opp : z -> z

  val sub : z -> z -> z

  val mul : z -> z -> z

  val compare : z -> z -> comparison

  val leb : z -> z -> bool

  val ltb : z -> z -> bool

  val to_N : z -> n

  val pos_div_eucl : positive -> z -> z * z

  val div_eucl : z -> z -> z * z

  val div : z -> z -> z

  val modulo : z -> z -> z
 end

val nth : nat -> 'a1 list -> 'a1 -> 'a1

val nth_error : 'a1 list -> nat -> 'a1 option

val rev1 : 'a1 list -> 'a1 list

val map : ('a1 -> 'a2) -> 'a1 list -> 'a2 list

val flat_map : ('a1 -> 'a2 list) -> 'a1 list -> 'a2 list

val fold_left : ('a1 -> 'a2 -> 'a1) -> 'a2 list -> 'a1 -> 'a1

val existsb : ('a1 -> bool) -> 'a1 list -> bool

val forallb : ('a1 -> bool) -> 'a1 list -> bool

val firstn : nat -> 'a1 list -> 'a1 list

val skipn : nat -> 'a1 list -> 'a1 list

val repeat : 'a1 -> nat -> 'a1 list

type ascii =
| Ascii of bool * bool * bool * bool * bool * bool * bool * bool

val n_of_digits : bool list -> n

val n_of_ascii : ascii -> n

type string =
| EmptyString
| String of ascii * string

module Coq_Nat :
 sig
  type t = nat

  val zero : nat

  val one : nat

  val two : nat

  val succ : nat -> nat

  val pred : nat -> nat

  val add : nat -> nat -> nat

  val double : nat -> nat

  val mul : nat -> nat -> nat

  val sub : nat -> nat -> nat

  val eqb : nat -> nat -> bool

  val leb : nat -> nat -> bool

  val ltb : nat -> nat -> bool

  val compare : nat -> nat -> comparison

  val max : nat -> nat -> nat

  val min : nat -> nat -> nat

  val even : nat -> bool

  val odd : nat -> bool

  val pow : nat -> nat -> nat

  val tail_add : nat -> nat -> nat

  val tail_addmul : nat -> nat -> nat -> nat

  val tail_mul : nat -> nat -> nat

  val of_uint_acc : uint -> nat -> nat

  val of_uint : uint -> nat

  val of_hex_uint_acc : uint0 -> nat -> nat

  val of_hex_uint : uint0 -> nat

  val of_num_uint : uint1 -> nat

  val to_little_uint : nat -> uint -> uint

  val to_uint : nat -> uint

  val to_little_hex_uint : nat -> uint0 -> uint0

  val to_hex_uint : nat -> uint0

  val to_num_uint : nat -> uint1

  val to_num_hex_uint : nat -> uint1

  val of_int : signed_int -> nat option

  val of_hex_int : signed_int0 -> nat option

  val of_num_int : signed_int1 -> nat option

  val to_int : nat -> signed_int

  val to_hex_int : nat -> signed_int0

  val to_num_int : nat -> signed_int1

  val divmod : nat -> nat -> nat -> nat -> nat * nat

  val div : nat -> nat -> nat

  val modulo : nat -> nat -> nat

  val gcd : nat -> nat -> nat

  val square : nat -> nat

  val sqrt_iter : nat -> nat -> nat -> nat -> nat

  val sqrt : nat -> nat

  val log2_iter : nat -> nat -> nat -> nat -> nat

  val log2 : nat -> nat

  val iter : nat -> ('a1 -> 'a1) -> 'a1 -> 'a1

  val div2 : nat -> nat

  val testbit : nat -> nat -> bool

  val shiftl : nat -> nat -> nat

  val shiftr : nat -> nat -> nat

  val bitwise : (bool -> bool -> bool) -> nat -> nat -> nat -> nat

  val coq_land : nat -> nat -> nat

  val coq_lor : nat -> nat -> nat

  val ldiff : nat -> nat -> nat

  val coq_lxor : nat -> nat -> nat

  val recursion : 'a1 -> (nat -> 'a1 -> 'a1) -> nat -> 'a1

  val eq_dec : nat -> nat -> bool

  val leb_spec0 : nat -> nat -> reflect

  val ltb_spec0 : nat -> nat -> reflect

  module Private_OrderTac :
   sig
    module IsTotal :
     sig
     end

    module Tac :
     sig
     end
   end

  module Private_Tac :
   sig
   end

  module Private_Dec :
   sig
    val max_case_strong :
      nat -> nat -> (nat -> nat -> __ -> 'a1 -> 'a1) -> (__ -> 'a1) -> (__ ->
      'a1) -> 'a1

    val max_case :
      nat -> nat -> (nat -> nat -> __ -> 'a1 -> 'a1) -> 'a1 -> 'a1 -> 'a1

    val max_dec : nat -> nat -> bool

    val min_case_strong :
      nat -> nat -> (nat -> nat -> __ -> 'a1 -> 'a1) -> (__ -> 'a1) -> (__ ->
      'a1) -> 'a1

    val min_case :
      nat -> nat -> (nat -> nat -> __ -> 'a1 -> 'a1) -> 'a1 -> 'a1 -> 'a1

    val min_dec : nat -> nat -> bool
   end

  val max_case_strong : nat -> nat -> (__ -> 'a1) -> (__ -> 'a1) -> 'a1

  val max_case : nat -> nat -> 'a1 -> 'a1 -> 'a1

  val max_dec : nat -> nat -> bool

  val min_case_strong : nat -> nat -> (__ -> 'a1) -> (__ -> 'a1) -> 'a1

  val min_case : nat -> nat -> 'a1 -> 'a1 -> 'a1

  val min_dec : nat -> nat -> bool

  module Private_Parity :
   sig
   end

  module Private_NZPow :
   sig
   end

  module Private_NZSqrt :
   sig
   end

  val sqrt_up : nat -> nat

  val log2_up : nat -> nat

  module Private_NZDiv :
   sig
   end

  val lcm : nat -> nat -> nat

  val eqb_spec : nat -> nat -> reflect

  val b2n : bool -> nat

  val setbit : nat -> nat -> nat

  val clearbit : nat -> nat -> nat

  val ones : nat -> nat

  val lnot : nat -> nat -> nat

  val coq_Even_Odd_dec : nat -> bool

  type coq_EvenT = nat

  type coq_OddT = nat

  val coq_EvenT_0 : coq_EvenT

  val coq_EvenT_2 : nat -> coq_EvenT -> coq_EvenT

  val coq_OddT_1 : coq_OddT

  val coq_OddT_2 : nat -> coq_OddT -> coq_OddT

  val coq_EvenT_S_OddT : nat -> coq_EvenT -> coq_OddT

  val coq_OddT_S_EvenT : nat -> coq_OddT -> coq_EvenT

  val even_EvenT : nat -> coq_EvenT

  val odd_OddT : nat -> coq_OddT

  val coq_Even_EvenT : nat -> coq_EvenT

  val coq_Odd_OddT : nat -> coq_OddT

  val coq_EvenT_OddT_dec : nat -> (coq_EvenT, coq_OddT) sum

  val coq_OddT_EvenT_rect :
    (nat -> coq_EvenT -> 'a2 -> 'a1) -> 'a2 -> (nat -> coq_OddT -> 'a1 ->
    'a2) -> nat -> coq_OddT -> 'a1

  val coq_EvenT_OddT_rect :
    (nat -> coq_EvenT -> 'a2 -> 'a1) -> 'a2 -> (nat -> coq_OddT -> 'a1 ->
    'a2) -> nat -> coq_EvenT -> 'a2
 end

type 'a res =
| Ok of 'a
| Err
| Panic

val rbind : 'a1 res -> ('a1 -> 'a2 res) -> 'a2 res

type bytes = n list

val digits : n -> n -> nat -> n -> bytes

val u64be : n -> bytes

val be_val : bytes -> n

val be_u64 : bytes -> n res

val len_ok : bytes -> bool

val len_prefix : bytes -> bytes

val key_at : bytes -> n -> n res

val slice_from : bytes -> n -> bytes res

val slice : bytes -> n -> n -> bytes res

val key_len : bytes -> n

val bytes_cmp : bytes -> bytes -> comparison

val bytes_eqb : bytes -> bytes -> bool

val bytes_of_string : string -> bytes

val nS_PER_S : z

val s_PER_DAY : z

val civil_of_doe : z -> (z * z) * z

val civil_from_days : z -> (z * z) * z

val mIN_TIME : z

val mAX_TIME : z

val time_ok : z -> bool

val dec : nat -> z -> bytes

val fmt_time : z -> bytes

val charset : bytes

val gEN0 : n

val gEN1 : n

val gEN2 : n

val gEN3 : n

val gEN4 : n

val mASK25 : n

val sel : n -> n -> n -> n

val gen_mix : n -> n

val pm_step : n -> n -> n

val hrp_expand : bytes -> n list

val polymod : bytes -> n list -> n list -> n

val zERO6 : n list

val checksum : bytes -> n list -> n list

val to_lower : n -> n

val char_of : n -> n

val index_of : n -> n list -> n -> n option

val char_index : n -> n option

val to_values : bytes -> n list option

val bech32_encode : bytes -> n list -> bytes option

val is_lower : n -> bool

val is_upper : n -> bool

val printable : n -> bool

val normalize : bytes -> bytes option

val last_index : n -> bytes -> nat -> nat option -> nat option

val bech32_decode : bytes -> nat -> (bytes * n list) option

val bits_of : nat -> n -> bool list

val bits_val : bool list -> n

val take_bits : nat -> bool list -> n -> (n * bool list) option

val group_bits : nat -> nat -> bool list -> n list * bool list

val convert_bits : nat -> nat -> bool -> n list -> n list option

val convert_and_encode : bytes -> bytes -> bytes option

val decode_and_convert : bytes -> (bytes * bytes) option

val get_from_bech32 : bytes -> bytes -> bytes option

val verify_address_format : bytes -> bool

val is_space : n -> bool

val trim_left : bytes -> bytes

val trim_space : bytes -> bytes

type arole =
| RoleAcc
| RoleNode
| RoleProv

val addr_to_text : (arole -> bytes) -> arole -> bytes -> bytes option

val addr_from_text : (arole -> bytes) -> arole -> bytes -> bytes option

val deposit_DepositKeyPrefix : bytes

val deposit_DepositKey : bytes -> bytes

val deposit_DepositKey_ok : bytes -> bool

val deposit_StorePrefix : bytes

val mint_InflationKeyPrefix : bytes

val mint_InflationKey : z -> bytes

val mint_InflationKey_ok : z -> bool

val mint_StorePrefix : bytes

val node_NodeKeyPrefix : bytes

val node_ActiveNodeKeyPrefix : bytes

val node_InactiveNodeKeyPrefix : bytes

val node_NodeForInactiveAtKeyPrefix : bytes

val node_NodeForPlanKeyPrefix : bytes

val node_ActiveNodeKey : bytes -> bytes

val node_ActiveNodeKey_ok : bytes -> bool

val node_InactiveNodeKey : bytes -> bytes

val node_InactiveNodeKey_ok : bytes -> bool

val node_GetNodeForPlanKeyPrefix : n -> bytes

val node_GetNodeForPlanKeyPrefix_ok : n -> bool

val node_NodeForPlanKey : n -> bytes -> bytes

val node_NodeForPlanKey_ok : n -> bytes -> bool

val node_GetNodeForInactiveAtKeyPrefix : z -> bytes

val node_GetNodeForInactiveAtKeyPrefix_ok : z -> bool

val node_NodeForInactiveAtKey : z -> bytes -> bytes

val node_NodeForInactiveAtKey_ok : z -> bytes -> bool

val node_AddressFromNodeForPlanKey : bytes -> bytes res

val node_AddressFromNodeForInactiveAtKey : bytes -> bytes res

val node_StorePrefix : bytes

val plan_CountKey : bytes

val plan_PlanKeyPrefix : bytes

val plan_ActivePlanKeyPrefix : bytes

val plan_InactivePlanKeyPrefix : bytes

val plan_PlanForProviderKeyPrefix : bytes

val plan_ActivePlanKey : n -> bytes

val plan_ActivePlanKey_ok : n -> bool

val plan_InactivePlanKey : n -> bytes

val plan_InactivePlanKey_ok : n -> bool

val plan_GetPlanForProviderKeyPrefix : bytes -> bytes

val plan_GetPlanForProviderKeyPrefix_ok : bytes -> bool

val plan_PlanForProviderKey : bytes -> n -> bytes

val plan_PlanForProviderKey_ok : bytes -> n -> bool

val plan_IDFromPlanForProviderKey : bytes -> n res

val plan_StorePrefix : bytes

val provider_ProviderKeyPrefix : bytes

val provider_ActiveProviderKeyPrefix : bytes

val provider_InactiveProviderKeyPrefix : bytes

val provider_ActiveProviderKey : bytes -> bytes

val provider_ActiveProviderKey_ok : bytes -> bool

val provider_InactiveProviderKey : bytes -> bytes

val provider_InactiveProviderKey_ok : bytes -> bool

val provider_StorePrefix : bytes

val session_CountKey : bytes

val session_SessionKeyPrefix : bytes

val session_SessionForInactiveAtKeyPrefix : bytes

val session_SessionForAccountKeyPrefix : bytes

val session_SessionForNodeKeyPrefix : bytes

val session_SessionForSubscriptionKeyPrefix : bytes

val session_SessionForAllocationKeyPrefix : bytes

val session_SessionKey : n -> bytes

val session_SessionKey_ok : n -> bool

val session_GetSessionForAccountKeyPrefix : bytes -> bytes

val session_GetSessionForAccountKeyPrefix_ok : bytes -> bool

val session_SessionForAccountKey : bytes -> n -> bytes

val session_SessionForAccountKey_ok : bytes -> n -> bool

val session_GetSessionForNodeKeyPrefix : bytes -> bytes

val session_GetSessionForNodeKeyPrefix_ok : bytes -> bool

val session_SessionForNodeKey : bytes -> n -> bytes

val session_SessionForNodeKey_ok : bytes -> n -> bool

val session_GetSessionForSubscriptionKeyPrefix : n -> bytes

val session_GetSessionForSubscriptionKeyPrefix_ok : n -> bool

val session_SessionForSubscriptionKey : n -> n -> bytes

val session_SessionForSubscriptionKey_ok : n -> n -> bool

val session_GetSessionForAllocationKeyPrefix : n -> bytes -> bytes

val session_GetSessionForAllocationKeyPrefix_ok : n -> bytes -> bool

val session_SessionForAllocationKey : n -> bytes -> n -> bytes

val session_SessionForAllocationKey_ok : n -> bytes -> n -> bool

val session_GetSessionForInactiveAtKeyPrefix : z -> bytes

val session_GetSessionForInactiveAtKeyPrefix_ok : z -> bool

val session_SessionForInactiveAtKey : z -> n -> bytes

val session_SessionForInactiveAtKey_ok : z -> n -> bool

val session_IDFromSessionForAccountKey : bytes -> n res

val session_IDFromSessionForNodeKey : bytes -> n res

val session_IDFromSessionForSubscriptionKey : bytes -> n res

val session_IDFromSessionForAllocationKey : bytes -> n res

val session_IDFromSessionForInactiveAtKey : bytes -> n res

val session_StorePrefix : bytes

val subscription_CountKey : bytes

val subscription_SubscriptionKeyPrefix : bytes

val subscription_SubscriptionForInactiveAtKeyPrefix : bytes

val subscription_SubscriptionForAccountKeyPrefix : bytes

val subscription_SubscriptionForNodeKeyPrefix : bytes

val subscription_SubscriptionForPlanKeyPrefix : bytes

val subscription_AllocationKeyPrefix : bytes

val subscription_PayoutKeyPrefix : bytes

val subscription_PayoutForNextAtKeyPrefix : bytes

val subscription_PayoutForAccountKeyPrefix : bytes

val subscription_PayoutForNodeKeyPrefix : bytes

val subscription_PayoutForAccountByNodeKeyPrefix : bytes

val subscription_SubscriptionKey : n -> bytes

val subscription_SubscriptionKey_ok : n -> bool

val subscription_GetSubscriptionForAccountKeyPrefix : bytes -> bytes

val subscription_GetSubscriptionForAccountKeyPrefix_ok : bytes -> bool

val subscription_SubscriptionForAccountKey : bytes -> n -> bytes

val subscription_SubscriptionForAccountKey_ok : bytes -> n -> bool

val subscription_GetSubscriptionForNodeKeyPrefix : bytes -> bytes

val subscription_GetSubscriptionForNodeKeyPrefix_ok : bytes -> bool

val subscription_SubscriptionForNodeKey : bytes -> n -> bytes

val subscription_SubscriptionForNodeKey_ok : bytes -> n -> bool

val subscription_GetSubscriptionForPlanKeyPrefix : n -> bytes

val subscription_GetSubscriptionForPlanKeyPrefix_ok : n -> bool

val subscription_SubscriptionForPlanKey : n -> n -> bytes

val subscription_SubscriptionForPlanKey_ok : n -> n -> bool

val subscription_GetSubscriptionForInactiveAtKeyPrefix : z -> bytes

val subscription_GetSubscriptionForInactiveAtKeyPrefix_ok : z -> bool

val subscription_SubscriptionForInactiveAtKey : z -> n -> bytes

val subscription_SubscriptionForInactiveAtKey_ok : z -> n -> bool

val subscription_GetAllocationForSubscriptionKeyPrefix : n -> bytes

val subscription_GetAllocationForSubscriptionKeyPrefix_ok : n -> bool

val subscription_AllocationKey : n -> bytes -> bytes

val subscription_AllocationKey_ok : n -> bytes -> bool

val subscription_PayoutKey : n -> bytes

val subscription_PayoutKey_ok : n -> bool

val subscription_GetPayoutForNextAtKeyPrefix : z -> bytes

val subscription_GetPayoutForNextAtKeyPrefix_ok : z -> bool

val subscription_PayoutForNextAtKey : z -> n -> bytes

val subscription_PayoutForNextAtKey_ok : z -> n -> bool

val subscription_GetPayoutForAccountKeyPrefix : bytes -> bytes

val subscription_GetPayoutForAccountKeyPrefix_ok : bytes -> bool

val subscription_PayoutForAccountKey : bytes -> n -> bytes

val subscription_PayoutForAccountKey_ok : bytes -> n -> bool

val subscription_GetPayoutForNodeKeyPrefix : bytes -> bytes

val subscription_GetPayoutForNodeKeyPrefix_ok : bytes -> bool

val subscription_PayoutForNodeKey : bytes -> n -> bytes

val subscription_PayoutForNodeKey_ok : bytes -> n -> bool

val subscription_GetPayoutForAccountByNodeKeyPrefix : bytes -> bytes -> bytes

val subscription_GetPayoutForAccountByNodeKeyPrefix_ok :
  bytes -> bytes -> bool

val subscription_PayoutForAccountByNodeKey : bytes -> bytes -> n -> bytes

val subscription_PayoutForAccountByNodeKey_ok : bytes -> bytes -> n -> bool

val subscription_AccAddrFromSubscriptionForAccountKey : bytes -> bytes res

val subscription_IDFromSubscriptionForAccountKey : bytes -> n res

val subscription_IDFromSubscriptionForNodeKey : bytes -> n res

val subscription_IDFromSubscriptionForPlanKey : bytes -> n res

val subscription_IDFromSubscriptionForInactiveAtKey : bytes -> n res

val subscription_IDFromPayoutForAccountKey : bytes -> n res

val subscription_IDFromPayoutForNodeKey : bytes -> n res

val subscription_IDFromPayoutForAccountByNodeKey : bytes -> n res

val subscription_IDFromPayoutForNextAtKey : bytes -> n res

val subscription_StorePrefix : bytes

val swap_SwapKeyPrefix : bytes

val swap_SwapKey : bytes -> bytes

val swap_SwapKey_ok : bytes -> bool

val swap_StorePrefix : bytes

val types_Bech32PrefixAccAddr : bytes

val types_Bech32PrefixProvAddr : bytes

val types_Bech32PrefixNodeAddr : bytes

val hrp_of : arole -> bytes

val gen_prefix_table : (string * bytes) list

val gen_ctor_table :
  (string * (bytes -> bytes -> n -> n -> z -> bytes -> bool * bytes)) list

val gen_dec_u64_table : (string * (bytes -> n res)) list

val gen_dec_bytes_table : (string * (bytes -> bytes res)) list

val gen_store_table : (string * bytes) list

val model_addr_to_text : arole -> bytes -> bytes option

val model_addr_from_text : arole -> bytes -> bytes option
